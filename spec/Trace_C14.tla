------------------------------ MODULE Trace_C14 ------------------------------
(***************************************************************************)
(* C14: judges the observations of concurrent and repeated calls.  Each      *)
(* event is one scenario (entry point, import mode, spare slice capacity,    *)
(* goroutines) executed by a -race build: the race detector's verdict, the   *)
(* identity of all results (within the process and across fresh processes)   *)
(* and whether the caller's File - including the hidden capacity of its      *)
(* slices - is unchanged.  GenConcurrency.tla predicts where the pinned       *)
(* Generate races: mode "append" violates NoRace exactly when the File has    *)
(* imports to append and its slices have spare capacity.                      *)
(***************************************************************************)
EXTENDS Integers, Sequences, TLC, Json

CONSTANTS Devs
Trace == ndJsonDeserialize("events.ndjson")
VARIABLES l, nOK, nKnown, nViol
vars == <<l, nOK, nKnown, nViol>>

Why(e) ==
  IF e.crash # "" THEN e.api \o " crashed under concurrent calls: " \o e.crash
  ELSE IF e.race THEN "data race between concurrent " \o e.api \o " calls sharing one File"
  ELSE IF ~e.unchanged THEN e.api \o " modified the File it was given (possibly behind len, within cap)"
  ELSE IF ~e.identical THEN "concurrent/repeated " \o e.api \o " calls returned different results"
  ELSE IF ~e.crossproc THEN e.api \o " returns different results in different processes (map iteration order?)"
  ELSE IF ~e.history THEN e.api \o " returns a different result after earlier calls in the same process, with other settings or on other schemas (not a function of its input alone)"
  ELSE ""
\* the as-is model (GenConcurrency, Mode = "append"): appends of imported definitions land in the caller's spare capacity
Dev(e) == IF "append_into_caller_capacity" \in Devs /\ e.api = "Generate" /\ e.imports /\ e.spare > 0 /\ (e.race \/ ~e.unchanged)
          THEN "append_into_caller_capacity" ELSE ""

Init == l = 1 /\ nOK = 0 /\ nKnown = 0 /\ nViol = 0
Step == /\ l <= Len(Trace)
        /\ LET e == Trace[l]  w == Why(e)  d == IF w = "" THEN "" ELSE Dev(e) IN
           /\ l' = l + 1
           /\ nOK' = nOK + (IF w = "" THEN 1 ELSE 0)
           /\ nKnown' = nKnown + (IF w # "" /\ d # "" THEN 1 ELSE 0)
           /\ nViol' = nViol + (IF w # "" /\ d = "" THEN 1 ELSE 0)
           /\ (w # "") => PrintT("@@V " \o ToJson([l |-> l, cid |-> 1, verdict |-> IF d = "" THEN "VIOLATION" ELSE "KNOWN", why |-> w, dev |-> d]))
Spec == Init /\ [][Step]_vars
TraceAccepted == TLCGet("stats").diameter - 1 = Len(Trace)
Done == l = Len(Trace) + 1 => PrintT("@@COUNTS " \o ToJson([ok |-> nOK, na |-> 0, known |-> nKnown, viol |-> nViol]))
=============================================================================
