----------------------------- MODULE StreamAbs -----------------------------
(***************************************************************************)
(* What C05 requires of ANY stream decoder, stated without reference to    *)
(* how it groups its reads: a stream carries records back to back, record   *)
(* r occupies the bytes ends[r-1]..ends[r]-1.  While decoding record rec    *)
(* the decoder may take any positive number of bytes that still belong to   *)
(* that record (AbsRead) - never a byte of the next record, and it never    *)
(* asks when nothing of the record is left (that would block on a live      *)
(* connection).  It returns exactly when the record is consumed (AbsReturn).*)
(*                                                                         *)
(* StreamCodec.tla (the ideal element-by-element decoder under arbitrary    *)
(* fragmentation) refines this specification - checked by TLC - and the     *)
(* read-level traces recorded from the real DecodeBebop are validated       *)
(* against it (Trace_Stream.tla).                                           *)
(***************************************************************************)
EXTENDS Integers, Sequences

VARIABLES ends,   \* ends[r] = offset just after record r (a constant of the behaviour)
          rec,    \* the record being decoded (1-based); Len(ends)+1 when all are read
          rpos    \* bytes of the stream consumed so far

absvars == <<ends, rec, rpos>>

Start(r) == IF r = 1 THEN 0 ELSE ends[r - 1]

AbsInit(e) == ends = e /\ rec = 1 /\ rpos = 0

AbsRead(k) == /\ rec <= Len(ends)
              /\ rpos < ends[rec]              \* never asks when the record is exhausted
              /\ k >= 1 /\ rpos + k <= ends[rec] \* never takes a byte of the next record
              /\ rpos' = rpos + k
              /\ UNCHANGED <<ends, rec>>

AbsReturn == /\ rec <= Len(ends)
             /\ rpos = ends[rec]               \* exactly one record consumed
             /\ rec' = rec + 1
             /\ UNCHANGED <<ends, rpos>>

AbsNext == (\E k \in 1..64 : AbsRead(k)) \/ AbsReturn

ExactPosition == rec >= 1 /\ rpos >= Start(IF rec > Len(ends) THEN Len(ends) ELSE rec)
                 /\ (rec <= Len(ends) => rpos <= ends[rec])
=============================================================================
