----------------------------- MODULE ParserLoop -----------------------------
(***************************************************************************)
(* ReadFile's top-level control flow as a state machine (C10, C11).         *)
(*                                                                         *)
(* The input is a sequence of ITEMS: attributes, comments, definitions and  *)
(* lexical errors.  The parser walks it with "pending" registers that carry  *)
(* an attribute to the next definition.  The ideal machine is given here;    *)
(* the deviations of the pinned implementation are named disjuncts guarded   *)
(* by membership in Devs.                                                    *)
(*                                                                         *)
(* Checked by TLC for every item sequence up to MaxLen:                      *)
(*   NoLeak            after a definition is appended all registers are clear*)
(*   AttachExactlyOnce every attribute lands on exactly the next definition  *)
(*   NoSilentDrop      "ok" only if the whole input was consumed and no       *)
(*                     lexical error item was passed over                     *)
(*   Terminates        the walk ends                                          *)
(***************************************************************************)
EXTENDS Integers, Sequences, FiniteSets, TLC, Json

CONSTANTS MaxLen,   \* longest item sequence
          Devs      \* deviations: "toplevel_tokenizer_error_dropped", "flags_register_sticky"

DefKinds == {"struct", "message", "union", "enum", "const"}
Items == {"opcode", "flags", "readonly", "linecomment", "blockcomment", "blank", "import",
          "stray", "opencomment", "openstring"} \cup DefKinds
ErrorItems == {"stray", "opencomment", "openstring"}

VARIABLES input,    \* the item sequence (constant of the behaviour)
          pos,      \* next item
          pend,     \* pending registers [opcode, ro, flags, comments]
          defs,     \* appended definitions: [kind, at, opcode, ro, flags, comments]
          imports,  \* number of imports
          res       \* "run" | "ok" | "err" | "unspec"
vars == <<input, pos, pend, defs, imports, res>>

Clear == [opcode |-> 0, ro |-> FALSE, flags |-> FALSE, comments |-> <<>>]

RECURSIVE SeqsUpTo(_)
SeqsUpTo(n) == IF n = 0 THEN {<<>>} ELSE SeqsUpTo(n - 1) \cup {Append(s, i) : s \in {t \in SeqsUpTo(n - 1) : Len(t) = n - 1}, i \in Items}

Init == /\ input \in SeqsUpTo(MaxLen)
        /\ pos = 1 /\ pend = Clear /\ defs = <<>> /\ imports = 0 /\ res = "run"

Cur == input[pos]
Running == res = "run" /\ pos <= Len(input)

Attr == /\ Running /\ Cur \in {"opcode", "flags"}
        /\ IF Cur = "opcode"
           THEN IF pend.opcode # 0 THEN res' = "unspec" /\ UNCHANGED pend      \* two opcodes in a row: the language is silent
                ELSE pend' = [pend EXCEPT !.opcode = pos] /\ UNCHANGED res
           ELSE pend' = [pend EXCEPT !.flags = TRUE] /\ UNCHANGED res
        /\ pos' = pos + 1 /\ UNCHANGED <<input, defs, imports>>

ReadOnly == /\ Running /\ Cur = "readonly"
            /\ IF pos < Len(input) /\ input[pos + 1] = "struct"
               THEN pend' = [pend EXCEPT !.ro = TRUE] /\ UNCHANGED res
               ELSE res' = "err" /\ UNCHANGED pend                  \* readonly applies to structs only, immediately
            /\ pos' = pos + 1 /\ UNCHANGED <<input, defs, imports>>

Comment == /\ Running /\ Cur \in {"linecomment", "blockcomment"}
           /\ pend' = [pend EXCEPT !.comments = Append(pend.comments, pos)]
           /\ pos' = pos + 1 /\ UNCHANGED <<input, defs, imports, res>>

Blank == /\ Running /\ Cur = "blank"
         /\ pend' = [pend EXCEPT !.comments = <<>>]       \* a blank line detaches comments
         /\ pos' = pos + 1 /\ UNCHANGED <<input, defs, imports, res>>

Import == /\ Running /\ Cur = "import"
          /\ IF pend.opcode # 0 \/ pend.flags THEN res' = "unspec" /\ UNCHANGED imports
             ELSE imports' = imports + 1 /\ UNCHANGED res
          /\ pend' = [pend EXCEPT !.comments = <<>>]
          /\ pos' = pos + 1 /\ UNCHANGED <<input, defs>>

Compatible(kind) ==
  /\ (pend.opcode # 0 => kind \in {"struct", "message", "union"})
  /\ (pend.flags => kind = "enum")
  /\ (pend.ro => kind = "struct")

Definition == /\ Running /\ Cur \in DefKinds
              /\ IF Compatible(Cur)
                 THEN /\ defs' = Append(defs, [kind |-> Cur, at |-> pos, opcode |-> pend.opcode, ro |-> pend.ro,
                                               flags |-> pend.flags, comments |-> pend.comments])
                      /\ UNCHANGED res
                 ELSE res' = "err" /\ UNCHANGED defs
              \* the ideal parser clears every register; the pinned one kept flags
              /\ pend' = IF "flags_register_sticky" \in Devs THEN [Clear EXCEPT !.flags = pend.flags] ELSE Clear
              /\ pos' = pos + 1 /\ UNCHANGED <<input, imports>>

\* a lexical error: the ideal parser reports it; the pinned one ended the loop and returned ok
LexError == /\ Running /\ Cur \in ErrorItems
            /\ res' = IF "toplevel_tokenizer_error_dropped" \in Devs THEN "ok" ELSE "err"
            /\ UNCHANGED <<input, pos, pend, defs, imports>>

Finish == /\ res = "run" /\ pos > Len(input)
          /\ res' = IF pend.opcode # 0 \/ pend.flags THEN "unspec" ELSE "ok"   \* a dangling attribute: the language is silent
          /\ UNCHANGED <<input, pos, pend, defs, imports>>

Next == Attr \/ ReadOnly \/ Comment \/ Blank \/ Import \/ Definition \/ LexError \/ Finish
Spec == Init /\ [][Next]_vars /\ WF_vars(Next)

-----------------------------------------------------------------------------
NoLeak == [][(Len(defs') > Len(defs)) => pend' = Clear]_vars

\* every definition carries exactly the attributes that stand between it and the previous definition
AttrsBefore(p) == LET prev == {q \in 1..(p - 1) : input[q] \in DefKinds \cup {"import"}}
                      from == IF prev = {} THEN 1 ELSE (CHOOSE q \in prev : \A r \in prev : r <= q) + 1
                  IN {q \in from..(p - 1) : input[q] \in {"opcode", "flags", "readonly"}}
AttachExactlyOnce ==
  \A i \in 1..Len(defs) :
     LET d == defs[i]  a == AttrsBefore(d.at) IN
     /\ (d.opcode # 0) = (\E q \in a : input[q] = "opcode")
     /\ d.flags = (\E q \in a : input[q] = "flags")
     /\ d.ro = (\E q \in a : input[q] = "readonly")

NoSilentDrop == res = "ok" => /\ pos = Len(input) + 1
                              /\ \A q \in 1..Len(input) : input[q] \notin ErrorItems
                              /\ Len(defs) = Cardinality({q \in 1..Len(input) : input[q] \in DefKinds})

Terminates == <>(res # "run")

\* export of every terminal state: the item sequence and the model's verdict (replayed on the real ReadFile)
Export == res # "run" =>
  PrintT("@@ICASE " \o ToJson([items |-> input, verdict |-> res, imports |-> imports,
          defs |-> [i \in 1..Len(defs) |-> [kind |-> defs[i].kind, at |-> defs[i].at, opcode |-> defs[i].opcode,
                                            ro |-> defs[i].ro, ncomments |-> Len(defs[i].comments),
                                            blockc |-> \E j \in 1..Len(defs[i].comments) : input[defs[i].comments[j]] = "blockcomment"]]]))
=============================================================================
