------------------------------ MODULE Trace_C10 ------------------------------
(***************************************************************************)
(* Judges the observations of the real ReadFile for C10:                    *)
(*   items : item sequences of ParserLoop.tla, with the model's verdict      *)
(*           (ok + the definitions and their attributes / err / unspec)      *)
(*   tokens: lexeme strings - no crash, no hang; success implies that a      *)
(*           definition appended to the input is seen (or an error)          *)
(*   pfault: a reader that fails at offset k - ReadFile must return an error *)
(***************************************************************************)
EXTENDS Integers, Sequences, TLC, Json

CONSTANTS Devs

Trace == ndJsonDeserialize("events.ndjson")
VARIABLES l, nOK, nKnown, nViol
vars == <<l, nOK, nKnown, nViol>>

Crash(r) == r \in {"panic", "timeout"}

Why(e) ==
  CASE e.ev = "items" ->
        IF Crash(e.res) THEN "ReadFile " \o e.res \o " on an item sequence"
        ELSE IF e.verdict = "unspec" THEN ""
        ELSE IF e.verdict = "err" THEN
             (IF e.res = "err" THEN "" ELSE "ReadFile reports success although the input " \o e.reason)
        ELSE IF e.res # "nil" THEN "ReadFile rejects a well-formed sequence of definitions and attributes"
        ELSE IF e.imports # e.wimports THEN "ReadFile returns a different number of imports"
        ELSE IF e.defs # e.wdefs THEN "ReadFile attaches attributes or comments to the wrong definition, or drops a definition"
        ELSE ""
    [] e.ev = "tokens" ->
        IF Crash(e.res) \/ Crash(e.res2) THEN "ReadFile " \o (IF Crash(e.res) THEN e.res ELSE e.res2) \o " on a token string"
        ELSE IF e.res = "nil" /\ e.res2 = "nil" /\ ~e.seen
             THEN "ReadFile reports success but silently ignores a definition appended to the input"
        ELSE ""
    [] e.ev = "pfault" ->
        IF Crash(e.res) THEN "ReadFile " \o e.res \o " when the reader fails"
        ELSE IF e.res # "err" THEN "ReadFile reports success although the reader failed with an I/O error"
        ELSE ""
    [] OTHER -> ""

\* deviation of the pinned tree that explains a violation ("" if none)
Dev(e) ==
  IF "toplevel_tokenizer_error_dropped" \in Devs /\ e.lexerr THEN "toplevel_tokenizer_error_dropped" ELSE ""

Init == l = 1 /\ nOK = 0 /\ nKnown = 0 /\ nViol = 0
Step == /\ l <= Len(Trace)
        /\ LET e == Trace[l]  w == Why(e)  d == IF w = "" THEN "" ELSE Dev(e) IN
           /\ l' = l + 1
           /\ nOK' = nOK + (IF w = "" THEN 1 ELSE 0)
           /\ nKnown' = nKnown + (IF w # "" /\ d # "" THEN 1 ELSE 0)
           /\ nViol' = nViol + (IF w # "" /\ d = "" THEN 1 ELSE 0)
           /\ (w # "") => PrintT("@@V " \o ToJson([l |-> l, cid |-> 1, verdict |-> IF d = "" THEN "VIOLATION" ELSE "KNOWN", why |-> w, dev |-> d]))
Spec == Init /\ [][Step]_vars
TraceAccepted == TLCGet("stats").diameter - 1 = Len(Trace)
Done == l = Len(Trace) + 1 => PrintT("@@COUNTS " \o ToJson([ok |-> nOK, na |-> 0, known |-> nKnown, viol |-> nViol]))
=============================================================================
