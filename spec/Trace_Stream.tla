---------------------------- MODULE Trace_Stream ----------------------------
(***************************************************************************)
(* Validates the read-level traces recorded from the real DecodeBebop      *)
(* (every Read call on the underlying reader, every return) against        *)
(* StreamAbs: the implementation's behaviour must be a behaviour of the     *)
(* abstract stream specification that StreamCodec.tla refines.              *)
(*   sbegin: a new stream starts (ends = record boundaries)                 *)
(*   sread : one Read call returned got bytes        -> AbsRead(got)        *)
(*   sret  : DecodeBebop returned nil                -> AbsReturn           *)
(*   sabort: the harness stopped recording (more than 2000 Read calls)      *)
(* Traces of many streams are concatenated; an event that StreamAbs does    *)
(* not allow is reported and the rest of that stream is skipped.            *)
(***************************************************************************)
EXTENDS StreamAbs, Json, TLC

Trace == ndJsonDeserialize("sevents.ndjson")

VARIABLES l, ok, nBad, nStreams
tvars == <<ends, rec, rpos, l, ok, nBad, nStreams>>

Init == /\ ends = <<>> /\ rec = 1 /\ rpos = 0
        /\ l = 1 /\ ok = FALSE /\ nBad = 0 /\ nStreams = 0

IsEvent(e) == l <= Len(Trace) /\ Trace[l].ev = e /\ l' = l + 1

TraceBegin == /\ IsEvent("sbegin")
              /\ ends' = Trace[l].ends /\ rec' = 1 /\ rpos' = 0
              /\ ok' = TRUE /\ nStreams' = nStreams + 1 /\ UNCHANGED nBad

TraceRead == /\ IsEvent("sread") /\ ok
             /\ AbsRead(Trace[l].got)
             /\ UNCHANGED <<ok, nBad, nStreams>>

TraceReturn == /\ IsEvent("sret") /\ ok
               /\ AbsReturn
               /\ UNCHANGED <<ok, nBad, nStreams>>

Explained(e) == \/ e.ev = "sread" /\ rec <= Len(ends) /\ rpos < ends[rec] /\ e.got >= 1 /\ rpos + e.got <= ends[rec]
                \/ e.ev = "sret" /\ rec <= Len(ends) /\ rpos = ends[rec]

\* an event StreamAbs does not allow: report it, skip the rest of this stream
TraceReject == /\ l <= Len(Trace) /\ Trace[l].ev \in {"sread", "sret"} /\ ok
               /\ ~Explained(Trace[l])
               /\ PrintT("@@SV " \o ToJson([l |-> l, cid |-> Trace[l].cid, ev |-> Trace[l].ev, rec |-> rec, rpos |-> rpos,
                                            ends |-> ends, got |-> IF Trace[l].ev = "sread" THEN Trace[l].got ELSE 0]))
               /\ l' = l + 1 /\ ok' = FALSE /\ nBad' = nBad + 1
               /\ UNCHANGED <<ends, rec, rpos, nStreams>>

\* the harness stopped recording this stream (more Read calls than it keeps): the rest is not judged at read level
\* (the per-record observations of the same run are judged by Trace_Wire)
TraceAbort == /\ IsEvent("sabort")
              /\ ok' = FALSE /\ UNCHANGED <<ends, rec, rpos, nBad, nStreams>>

TraceSkip == /\ l <= Len(Trace) /\ Trace[l].ev \in {"sread", "sret"} /\ ~ok
             /\ l' = l + 1 /\ UNCHANGED <<ends, rec, rpos, ok, nBad, nStreams>>

Next == TraceBegin \/ TraceRead \/ TraceReturn \/ TraceReject \/ TraceSkip \/ TraceAbort
Spec == Init /\ [][Next]_tvars

TraceAccepted == TLCGet("stats").diameter - 1 = Len(Trace)
Done == l = Len(Trace) + 1 => PrintT("@@SCOUNTS " \o ToJson([streams |-> nStreams, bad |-> nBad, events |-> Len(Trace)]))
=============================================================================
