----------------------------- MODULE Gen_Evolve -----------------------------
(***************************************************************************)
(* C04: pairs of schema versions (S1 older, S2 newer) in which a message    *)
(* Ev gains fields with fresh higher indices and/or S1 has deprecated a     *)
(* field S2 still sends, with Ev sitting in every nesting context.  TLC     *)
(* checks Extends(S1,S2) and the theorem ForwardCompat on the ideal decoder *)
(* and exports (S1, S2, value of S2, its bytes) for replay: the bytes are    *)
(* decoded by the code generated from S1.                                    *)
(***************************************************************************)
EXTENDS WireUniverse, AsIs, Json

VARIABLES pi, vi     \* pair index, value index
vars == <<pi, vi>>

\* types of the added fields
NewTypes == IF Tier = "thorough"
            THEN [i \in 1..Len(Leaves) |-> Leaves[i]] \o Cap(Depth1, 40)
            ELSE << Leaves[7], Leaves[12], Leaves[13], Leaves[14], Leaves[17], Leaves[23], Leaves[26], Leaves[27],
                    Depth1[1], Depth1[12], Depth1[27 + 12], Depth1[23] >>

Ctxs4 == <<"top", "structfield", "array", "mapvalue", "msgfield", "unionbranch", "unionfield">>

\* deprecation variants: which of Ev's old fields S1 has deprecated
DepVars == <<FALSE, TRUE>>

EvFields1(dep) == << MFld(1, "a", P("int32"), FALSE), MFld(2, "b", P("string"), dep) >>
EvFields2(nt, two) == << MFld(1, "a", P("int32"), FALSE), MFld(2, "b", P("string"), FALSE),
                         MFld(3, "n", nt, FALSE) >>
                      \o (IF two THEN << MFld(7, "m", P("int64"), FALSE) >> ELSE <<>>)

EvDef(fields, inner) ==
  IF inner = "" THEN [name |-> "Ev", kind |-> "message", fields |-> fields]
  ELSE [name |-> "Ev", kind |-> "message", fields |-> fields, inner |-> inner]

CtxDefs(ctx, evf) ==
  CASE ctx = "top" -> << [name |-> "Root", kind |-> "message", fields |-> evf] >>
    [] ctx = "structfield" -> << EvDef(evf, ""),
          [name |-> "Root", kind |-> "struct", ro |-> FALSE,
           fields |-> << Fld("pre", P("uint8")), Fld("m", R("Ev")), Fld("post", P("uint32")) >>] >>
    [] ctx = "array" -> << EvDef(evf, ""),
          [name |-> "Root", kind |-> "struct", ro |-> FALSE,
           fields |-> << Fld("ms", A(R("Ev"))), Fld("post", P("uint32")) >>] >>
    [] ctx = "mapvalue" -> << EvDef(evf, ""),
          [name |-> "Root", kind |-> "struct", ro |-> FALSE,
           fields |-> << Fld("mm", M("uint32", R("Ev"))), Fld("post", P("uint32")) >>] >>
    [] ctx = "msgfield" -> << EvDef(evf, ""),
          [name |-> "Root", kind |-> "message",
           fields |-> << MFld(1, "m", R("Ev"), FALSE), MFld(2, "post", P("uint32"), FALSE) >>] >>
    [] ctx = "unionbranch" -> << [name |-> "Root", kind |-> "union",
                                  branches |-> << [idx |-> 1, n |-> "Ev"], [idx |-> 2, n |-> "Other"] >>],
                                 EvDef(evf, "Root"),
                                 [name |-> "Other", kind |-> "struct", ro |-> FALSE, inner |-> "Root",
                                  fields |-> << Fld("x", P("uint8")) >>] >>
    [] ctx = "unionfield" -> << EvDef(evf, ""),
          [name |-> "Root", kind |-> "union", branches |-> << [idx |-> 1, n |-> "RA"], [idx |-> 2, n |-> "RB"] >>],
          [name |-> "RA", kind |-> "struct", ro |-> FALSE, inner |-> "Root",
           fields |-> << Fld("m", R("Ev")), Fld("post", P("uint32")) >>],
          [name |-> "RB", kind |-> "message", inner |-> "Root",
           fields |-> << MFld(1, "m", R("Ev"), FALSE), MFld(2, "post", P("uint32"), FALSE) >>] >>

\* other shapes of the older message: "many" - nine fields, so that the new indices have two digits;
\* "empty" - a placeholder without fields, so that everything the newer peer sends is unknown
ManyT(j) == << P("int32"), P("string"), P("bool"), P("guid"), P("date"), P("float64"), A(P("byte")), A(P("string")), P("uint16") >>[j]
ManyFields == [j \in 1..9 |-> MFld(j, "a" \o ToString(j), ManyT(j), FALSE)]
EvFields1V(var) == IF var = "many" THEN ManyFields ELSE <<>>
EvFields2V(var, nt, two) ==
  LET base == IF var = "many" THEN 9 ELSE 0 IN
  EvFields1V(var) \o << MFld(base + 1, "n", nt, FALSE) >> \o (IF two THEN << MFld(base + 2, "m", P("int64"), FALSE) >> ELSE <<>>)
Variants == <<"many", "empty">>

\* pairs: new type x one/two new fields x deprecation variant x context; then variant x 4 new types x one/two x context
NNew == Len(NewTypes)
NPairsAB == NNew * 2 * 2 * Len(Ctxs4)
NPairs == NPairsAB + 2 * 4 * 2 * Len(Ctxs4)
IsAB(p) == p <= NPairsAB
XQ(p) == p - NPairsAB - 1
VarOf(p)  == IF IsAB(p) THEN "ab" ELSE Variants[(XQ(p) % 2) + 1]
NewOf(p)  == IF IsAB(p) THEN NewTypes[((p - 1) % NNew) + 1] ELSE NewTypes[((XQ(p) \div 2) % 4) + 1]
TwoOf(p)  == IF IsAB(p) THEN (((p - 1) \div NNew) % 2) = 1 ELSE ((XQ(p) \div 8) % 2) = 1
DepOf(p)  == IF IsAB(p) THEN DepVars[(((p - 1) \div (NNew * 2)) % 2) + 1] ELSE FALSE
CtxOfP(p) == IF IsAB(p) THEN Ctxs4[((p - 1) \div (NNew * 4)) + 1] ELSE Ctxs4[(XQ(p) \div 16) + 1]

S1Of(p) == CtxDefs(CtxOfP(p), IF IsAB(p) THEN EvFields1(DepOf(p)) ELSE EvFields1V(VarOf(p)))
S2Of(p) == NewOf(p).sup \o CtxDefs(CtxOfP(p), IF IsAB(p) THEN EvFields2(NewOf(p).t, TwoOf(p)) ELSE EvFields2V(VarOf(p), NewOf(p).t, TwoOf(p)))

S1 == S1Of(pi)
S2 == S2Of(pi)
\* ... and, for the contexts that hold many instances of Ev, a value with 150 of them (every instance carries fields
\* the older version has to skip)
EvVals == Vals(S2, R("Ev"))
ManyInstances ==
  CASE CtxOfP(pi) = "array"    -> << << [i \in 1..150 |-> Cyc(EvVals, i)], <<7, 0, 0, 0>> >> >>
    [] CtxOfP(pi) = "mapvalue" -> << << [i \in 1..150 |-> << <<i, 0, 0, 0>>, Cyc(EvVals, i) >>], <<7, 0, 0, 0>> >> >>
    [] OTHER -> <<>>
AllVals == Vals(S2, RootT) \o (IF TwoOf(pi) /\ ~DepOf(pi) THEN ManyInstances ELSE <<>>)
V == AllVals[vi]
E == Enc(S2, RootT, V)

Init == pi = 0 /\ vi = 0
Next == \/ pi = 0 /\ pi' \in 1..NPairs /\ UNCHANGED vi
        \/ pi > 0 /\ vi = 0 /\ vi' \in 1..Len(AllVals) /\ UNCHANGED pi
IsCase == vi > 0

-----------------------------------------------------------------------------
IsExtension == pi > 0 => Extends(S1, S2)

\* the theorem of C04 on the ideal decoder: v1 reads v2's bytes as the restriction, consuming all
ForwardCompat ==
  IsCase => LET r == DecTop(S1, RootT, E) IN
            /\ r.ok
            /\ r.at = Len(E)
            /\ Canon(S1, RootT, r.v) = Canon(S1, RootT, RestrictTo(S1, S2, RootT, V))

Export ==
  /\ (pi > 0 /\ vi = 0) =>
        PrintT("@@SCHEMA " \o ToJson([sid |-> pi, defs |-> S1, defs2 |-> S2, tag |-> NewOf(pi).tag,
                                      ctx |-> CtxOfP(pi) \o (IF DepOf(pi) THEN "+dep" ELSE "") \o (IF TwoOf(pi) THEN "+2" ELSE "")
                                              \o (IF IsAB(pi) THEN "" ELSE "+" \o VarOf(pi))]))
  /\ IsCase => PrintT("@@CASE " \o ToJson([sid |-> pi, vi |-> vi, opts |-> <<>>, mask |-> 0, root |-> "Root",
                                 v |-> V, enc |-> E, want |-> Canon(S1, RootT, RestrictTo(S1, S2, RootT, V)),
                                 asis |-> ADecTop(S1, RootT, E)]))
=============================================================================
