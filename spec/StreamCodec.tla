---------------------------- MODULE StreamCodec ----------------------------
(***************************************************************************)
(* DecodeBebop as a state machine over an io.Reader that fragments reads   *)
(* arbitrarily and may fail (C05, C08).                                     *)
(*                                                                         *)
(* The ideal stream decoder reads one wire ELEMENT at a time with           *)
(* io.ReadFull: its read plan for a record is the sequence of element       *)
(* lengths of the record's layout (BebopWire.Lay).  The environment         *)
(* delivers any fragment 1..min(need, available) per Read (Deliver) or      *)
(* fails at a chosen offset (Fail).  After a failure the latch is set and   *)
(* the call returns an error.                                               *)
(*                                                                         *)
(* Checked by TLC over all cases of the bounded universe below and ALL      *)
(* Deliver schedules: NoOverAsk, ExactConsumption, FaultSurfaces, the       *)
(* refinement of StreamAbs, and termination under weak fairness.            *)
(***************************************************************************)
EXTENDS WireUniverse

MaxSid == Len(Depth0) * NCtx     \* the schemas of the depth-0 shapes take part

VARIABLES sid, vi,      \* the case: schema and first value
          ends, rec, rpos,   \* as in StreamAbs
          plan,         \* remaining element lengths of the current record
          need,         \* bytes still missing of the current ReadFull (0: none pending)
          fault,        \* -1: the reader never fails; k >= 0: it fails once k bytes are consumed
          latch,        \* the ErrorReader's sticky error
          res           \* per record: "run" | "nil" | "err"

vars == <<sid, vi, ends, rec, rpos, plan, need, fault, latch, res>>

Abs == INSTANCE StreamAbs

S == SchemaOf(sid)
AllV == Vals(S, RootT)
RecV(r) == Cyc(AllV, vi + r - 1)
RecE(r) == Enc(S, RootT, RecV(r))
NRec == 2

\* lengths of the wire elements of a layout, in order
RECURSIVE ElemLens(_, _, _)
ElemLens(lay, i, cur) ==
  IF i > Len(lay) THEN (IF cur = 0 THEN <<>> ELSE <<cur>>)
  ELSE IF IsStart(lay[i]) THEN (IF cur = 0 THEN <<>> ELSE <<cur>>) \o ElemLens(lay, i + 1, 1)
  ELSE ElemLens(lay, i + 1, cur + 1)
PlanOf(r) == ElemLens(Lay(S, RootT, RecV(r)), 1, 0)

EndsOf == [r \in 1..NRec |-> SumSeq([i \in 1..r |-> Len(RecE(i))])]

Init == /\ sid \in 1..MaxSid
        /\ vi \in 1..(IF Len(Vals(SchemaOf(sid), RootT)) > 2 THEN 2 ELSE Len(Vals(SchemaOf(sid), RootT)))
        /\ ends = [r \in 1..NRec |-> SumSeq([i \in 1..r |-> Len(Enc(SchemaOf(sid), RootT, Cyc(Vals(SchemaOf(sid), RootT), vi + i - 1)))])]
        /\ rec = 1 /\ rpos = 0
        /\ plan = ElemLens(Lay(SchemaOf(sid), RootT, Cyc(Vals(SchemaOf(sid), RootT), vi)), 1, 0)
        /\ need = 0
        /\ fault \in -1..(ends[NRec] - 1)
        /\ latch = FALSE
        /\ res = [r \in 1..NRec |-> "run"]

Running == rec <= NRec /\ res[rec] = "run"

\* the decoder issues the next ReadFull
Request == /\ Running /\ need = 0 /\ plan # <<>> /\ ~latch
           /\ need' = Head(plan)
           /\ plan' = Tail(plan)
           /\ UNCHANGED <<sid, vi, ends, rec, rpos, fault, latch, res>>

\* the environment delivers a fragment
Deliver(k) == /\ Running /\ need > 0
              /\ (fault = -1 \/ rpos + k <= fault)
              /\ k \in 1..need
              /\ rpos' = rpos + k
              /\ need' = need - k
              /\ UNCHANGED <<sid, vi, ends, rec, plan, fault, latch, res>>

\* the reader fails: the error is latched, nothing more is read, the call will return it
Fail == /\ Running /\ need > 0 /\ fault = rpos
        /\ latch' = TRUE
        /\ need' = 0
        /\ plan' = <<>>
        /\ UNCHANGED <<sid, vi, ends, rec, rpos, fault, res>>

\* DecodeBebop returns the latch
Return == /\ Running /\ need = 0 /\ plan = <<>>
          /\ res' = [res EXCEPT ![rec] = IF latch THEN "err" ELSE "nil"]
          /\ IF latch THEN UNCHANGED <<rec, plan>>
             ELSE /\ rec' = rec + 1
                  /\ plan' = IF rec < NRec THEN PlanOf(rec + 1) ELSE <<>>
          /\ UNCHANGED <<sid, vi, ends, rpos, need, fault, latch>>

Next == Request \/ (\E k \in 1..16 : Deliver(k)) \/ Fail \/ Return
Spec == Init /\ [][Next]_vars /\ WF_vars(Next)

Done == rec > NRec \/ (rec <= NRec /\ res[rec] = "err")

-----------------------------------------------------------------------------
\* a pending request never reaches beyond the current record
NoOverAsk == Running => rpos + need <= ends[rec]
\* a record that decoded without error consumed exactly its bytes
ExactConsumption == \A r \in 1..NRec : res[r] = "nil" => (rec > r /\ (r < rec - 1 \/ rpos >= ends[r]))
ReturnAtEnd == [][(rec' = rec + 1) => rpos = ends[rec]]_vars
\* a reader failure inside a record is reported by that record's call
FaultSurfaces == \A r \in 1..NRec : (res[r] = "nil" /\ fault >= 0) => fault >= ends[r]
\* all fragmentations end, and in the same result
Terminates == <>Done
\* refinement: every step is a step StreamAbs allows (or leaves its variables unchanged)
RefinesAbs == [][Abs!AbsNext]_<<ends, rec, rpos>>
=============================================================================
