------------------------------ MODULE Validate ------------------------------
(***************************************************************************)
(* The recursion analysis of File.Validate AS CODED (gen.go: the "delta"     *)
(* loop): every struct has a usage set (the names its fields mention); a     *)
(* pass visits every ordered pair of distinct structs (s1, s2) and, if s1    *)
(* uses s2, adds s2's usage to s1's; passes repeat while something changed;  *)
(* a struct that ends up using itself is reported.  Go iterates its maps in   *)
(* an arbitrary order and the inner maps are shared references, so the        *)
(* order of pairs within a pass is nondeterministic: TLC explores EVERY       *)
(* order, for every usage graph on N structs, and checks that the loop        *)
(* terminates and that its verdict is the declarative one (a struct reaches   *)
(* itself through struct usage) whatever the order.                           *)
(***************************************************************************)
EXTENDS Integers, FiniteSets, TLC

CONSTANT N
S == 1..N

VARIABLES g,       \* the usage graph chosen for this behaviour: struct -> set of structs its fields mention
          u,       \* usage sets as the loop updates them
          outer,   \* structs still to visit as s1 in this pass
          s1,      \* the current s1 (0: none)
          inner,   \* structs still to visit as s2 for the current s1
          delta,   \* something changed in this pass
          pc       \* "pass" | "done"
vars == <<g, u, outer, s1, inner, delta, pc>>

Init == /\ g \in [S -> SUBSET S]
        /\ u = g /\ outer = S /\ s1 = 0 /\ inner = {} /\ delta = FALSE /\ pc = "pass"

PickOuter == /\ pc = "pass" /\ s1 = 0 /\ outer # {}
             /\ \E a \in outer : s1' = a /\ outer' = outer \ {a} /\ inner' = S \ {a}
             /\ UNCHANGED <<g, u, delta, pc>>

PickInner == /\ pc = "pass" /\ s1 # 0 /\ inner # {}
             /\ \E b \in inner :
                   /\ inner' = inner \ {b}
                   /\ IF b \in u[s1]
                      THEN /\ u' = [u EXCEPT ![s1] = @ \cup u[b]]
                           /\ delta' = (delta \/ ~(u[b] \subseteq u[s1]))
                      ELSE UNCHANGED <<u, delta>>
             /\ UNCHANGED <<g, outer, s1, pc>>

EndInner == /\ pc = "pass" /\ s1 # 0 /\ inner = {}
            /\ s1' = 0 /\ UNCHANGED <<g, u, outer, inner, delta, pc>>

EndPass == /\ pc = "pass" /\ s1 = 0 /\ outer = {}
           /\ IF delta THEN outer' = S /\ delta' = FALSE /\ pc' = "pass"
              ELSE pc' = "done" /\ UNCHANGED <<outer, delta>>
           /\ UNCHANGED <<g, u, s1, inner>>

Next == PickOuter \/ PickInner \/ EndInner \/ EndPass
Spec == Init /\ [][Next]_vars /\ WF_vars(Next)

\* declarative: struct a reaches struct b through one or more usage edges
RECURSIVE Reach(_, _)
Reach(from, k) == IF k = 0 THEN from ELSE Reach(from \cup UNION {g[x] : x \in from}, k - 1)
SelfContaining == \E a \in S : a \in Reach(g[a], N)
Verdict == \E a \in S : a \in u[a]

Exact == pc = "done" => (Verdict = SelfContaining)
\* the usage sets only grow and never leave the reachable set (the loop computes a transitive closure, no more)
Sound == \A a \in S : g[a] \subseteq u[a] /\ u[a] \subseteq Reach(g[a], N)
Terminates == <>(pc = "done")
=============================================================================
