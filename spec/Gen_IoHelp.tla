----------------------------- MODULE Gen_IoHelp -----------------------------
(***************************************************************************)
(* C20: the primitive layouts.  TLC enumerates, for every primitive wire    *)
(* type, the values to exercise (ALL values of the 8- and 16-bit types,     *)
(* boundaries and a seeded pseudo-random sample of the wider ones, strings  *)
(* with declared lengths around the buffer's), checks ReadOfWrite on the    *)
(* model and exports value + reference wire bytes.                          *)
(***************************************************************************)
EXTENDS WireUniverse, Json

VARIABLES ti, k     \* type index, value index
vars == <<ti, k>>

Types == PrimSeq
W(p) == IF p = "string" THEN 0 ELSE PrimWidth[p]

\* deterministic pseudo-random byte
Rnd(a, b) == ((a * 7919 + b * 104729 + Seed * 31337 + ((a * b) % 251)) % 65521) % 256

NRand == IF Tier = "thorough" THEN 4000 ELSE 400

Count(p) ==
  CASE W(p) = 1 -> 256
    [] W(p) = 2 -> 65536
    [] p = "string" -> 12
    [] OTHER -> Len(PrimVals(p)) + NRand

Value(p, i) ==
  CASE W(p) = 1 -> <<i - 1>>
    [] W(p) = 2 -> <<(i - 1) % 256, (i - 1) \div 256>>
    [] p = "string" -> [j \in 1..((i - 1) * 3) |-> Rnd(i, j)]
    [] OTHER -> IF i <= Len(PrimVals(p)) THEN PrimVals(p)[i]
                ELSE LET raw == [j \in 1..W(p) |-> Rnd(i, j)] IN
                     \* dates must stay in the range a Go time can carry at 100ns resolution
                     IF p = "date" THEN [j \in 1..8 |-> IF j = 8 THEN 0 ELSE IF j = 7 THEN raw[j] % 64 ELSE raw[j]]
                     ELSE raw

Init == ti = 0 /\ k = 0
Next == \/ ti = 0 /\ ti' \in 1..Len(Types) /\ UNCHANGED k
        \/ ti > 0 /\ k = 0 /\ k' \in 1..Count(Types[ti]) /\ UNCHANGED ti
IsCase == k > 0

T == Types[ti]
V == Value(T, k)

\* reading back what was written returns the value (a bool byte other than 1 reads as false)
NormPrim(p, v) == IF p = "bool" THEN (IF v[1] = 1 THEN <<1>> ELSE <<0>>) ELSE v
ReadOfWrite == IsCase => LET w == EncPrim(T, V)  r == DecPrim(T, w, 0, Len(w)) IN
                         r.ok /\ r.at = Len(w) /\ r.v = NormPrim(T, V)
\* the GUID permutation is an involution
GuidInvolution == \A i \in 1..16 : GuidPerm[GuidPerm[i]] = i
ASSUME GuidInvolution

Export == IsCase => PrintT("@@PRIM " \o ToJson([t |-> T, k |-> k, v |-> V, wire |-> EncPrim(T, V)]))
=============================================================================
