-------------------------------- MODULE AsIs --------------------------------
(***************************************************************************)
(* The as-is model: what the pinned implementation does where it deviates  *)
(* from what the properties require.  Each deviation has a name; a trace    *)
(* spec is given the set Devs of deviations that are OPEN known findings    *)
(* (known_findings.json).  With Devs = {} nothing is excused.               *)
(***************************************************************************)
EXTENDS BebopWire

-----------------------------------------------------------------------------
(* C12: shapes for which the pinned generator emits code that does not      *)
(* compile.  Predicates over the field type and its context only.           *)
RECURSIVE ContainsArrayOfEnum(_, _)
ContainsArrayOfEnum(S, t) ==
  CASE t.k = "p" -> FALSE
    [] t.k = "a" -> (t.e.k = "r" /\ Def(S, t.e.n).kind = "enum") \/ ContainsArrayOfEnum(S, t.e)
    [] t.k = "m" -> ContainsArrayOfEnum(S, t.v)
    [] t.k = "r" -> FALSE

IsContainer(t) == t.k \in {"a", "m"}
ElemOf(t) == IF t.k = "a" THEN t.e ELSE t.v
NestedContainer(t) == IsContainer(t) /\ IsContainer(ElemOf(t))

\* ctx in which the shape is (also) a message field: DecodeBebop of messages
MessageLike(ctx) == ctx \in {"message", "depmsg", "union"}

AsIsUncompilableS(Devs, S, ft, ctx) ==
  IF "uncompilable:array_of_enum" \in Devs /\ ContainsArrayOfEnum(S, ft) THEN "uncompilable:array_of_enum"
  ELSE IF "uncompilable:msg_nested_container" \in Devs /\ MessageLike(ctx) /\ NestedContainer(ft)
       THEN "uncompilable:msg_nested_container"
  ELSE ""

\* name of the deviation that explains a failed encoder event, "" if none
AsIsExplainsEnc(Devs, S, t, c, e) == ""

\* name of the deviation that explains a failed decoder event, "" if none
AsIsExplainsDec(Devs, S, t, c, e) == ""
=============================================================================
