-------------------------------- MODULE AsIs --------------------------------
(***************************************************************************)
(* The as-is model: what the pinned implementation does where it deviates  *)
(* from what the properties require.  Each deviation has a name; a trace    *)
(* spec is given the set Devs of deviations that are OPEN known findings    *)
(* (known_findings.json).  With Devs = {} nothing is excused.               *)
(***************************************************************************)
EXTENDS BebopWire

\* name of the deviation that explains a failed encoder event, "" if none
AsIsExplainsEnc(Devs, S, t, c, e) == ""

\* name of the deviation that explains a failed decoder event, "" if none
AsIsExplainsDec(Devs, S, t, c, e) == ""
=============================================================================
