----------------------------- MODULE Gen_Tokens -----------------------------
(***************************************************************************)
(* C10: every string of up to MaxTok lexemes over an alphabet that contains  *)
(* every token kind of the language and the lexemes that make the tokenizer  *)
(* fail (stray byte, unterminated comment/string, lone '-', '/', "0x", "1.", *)
(* a non-UTF-8 byte).  The meaning of most of these strings is left open by   *)
(* the language; what is judged is the property's own statement (no crash,    *)
(* no hang, and success implies that an appended definition is seen).         *)
(***************************************************************************)
EXTENDS Integers, Sequences, TLC, Json

CONSTANTS Tier, Seed

Alphabet == << "struct", "message", "union", "enum", "const", "readonly", "import", "map", "array", "deprecated",
               "opcode", "flags", "inf", "-inf", "nan", "true", "false", "Foo", "int32", "7", "-3", "0x1F", "1.5",
               "\"s\"", "[", "]", "(", ")", "{", "}", ";", ",", "=", "->", ":", "|", "<<", ">>", "&",
               "// c\n", "/* b */", "\n",
               "$", "/* open", "\"open", "-", "/", "0x", "1.", "1e", "@BYTE255" >>
N == Len(Alphabet)
MaxTok == IF Tier = "thorough" THEN 4 ELSE 3

VARIABLES len, idx
vars == <<len, idx>>

RECURSIVE Pow(_, _)
Pow(b, e) == IF e = 0 THEN 1 ELSE b * Pow(b, e - 1)
RECURSIVE Nth(_, _)
Nth(l, i) == IF l = 0 THEN <<>> ELSE <<Alphabet[(i % N) + 1]>> \o Nth(l - 1, i \div N)

\* operands and operators of [flags] member expressions (part "expr": len = 9)
ExprAlpha == << "1", "-1", "64", "0x10", "A", "<<", ">>", "|", "&", "(", ")" >>
NE == Len(ExprAlpha)
MaxExpr == 4
RECURSIVE NthE(_, _)
NthE(l, i) == IF l = 0 THEN <<>> ELSE <<ExprAlpha[(i % NE) + 1]>> \o NthE(l - 1, i \div NE)
RECURSIVE ExprOfIndex(_, _)
ExprOfIndex(i, l) == IF i < Pow(NE, l) THEN NthE(l, i) ELSE ExprOfIndex(i - Pow(NE, l), l + 1)
NExprs == Pow(NE, 1) + Pow(NE, 2) + Pow(NE, 3) + Pow(NE, 4)

\* part "chars" (len = 8): strings of CHARACTERS, written without separators, so that every adjacency of
\* bytes the tokenizer distinguishes occurs: letters, digits, the hex and exponent letters, every byte that
\* starts a multi-byte token, quotes and escapes, each kind of white space, a byte no token starts with
CharAlpha == << "a", "1", "0", "x", "e", "-", ">", "<", "/", "*", "\"", "\\", ".", " ", "\n", "\r", "\t", ";", "[", "_", "i", "@BYTE255" >>
NC == Len(CharAlpha)
MaxChars == IF Tier = "thorough" THEN 5 ELSE 4
RECURSIVE NthC(_, _)
NthC(l, i) == IF l = 0 THEN <<>> ELSE <<CharAlpha[(i % NC) + 1]>> \o NthC(l - 1, i \div NC)
RECURSIVE CharsOfIndex(_, _)
CharsOfIndex(i, l) == IF i < Pow(NC, l) THEN NthC(l, i) ELSE CharsOfIndex(i - Pow(NC, l), l + 1)
RECURSIVE NCharsUpTo(_)
NCharsUpTo(l) == IF l = 0 THEN 0 ELSE Pow(NC, l) + NCharsUpTo(l - 1)
\* the longest length is sampled: a Seed-dependent residue class
CharStride == IF Tier = "thorough" THEN 40 ELSE 8
CharIdx == {i \in 1..NCharsUpTo(MaxChars) : i <= NCharsUpTo(MaxChars - 1) \/ (i + Seed) % CharStride = 0}

\* part "quoted" (len = 7): the inside of a string literal - characters between two quotes, where the tokenizer
\* tracks escapes and the parser later unquotes, trims or measures the literal
QAlpha == << "a", "\"", "\\", " ", "\n", "x", "1", "-", "@BYTE255" >>
NQ == Len(QAlpha)
RECURSIVE NthQ(_, _)
NthQ(l, i) == IF l = 0 THEN <<>> ELSE <<QAlpha[(i % NQ) + 1]>> \o NthQ(l - 1, i \div NQ)
RECURSIVE QOfIndex(_, _)
QOfIndex(i, l) == IF i < Pow(NQ, l) THEN NthQ(l, i) ELSE QOfIndex(i - Pow(NQ, l), l + 1)
NQ4 == Pow(NQ, 1) + Pow(NQ, 2) + Pow(NQ, 3) + Pow(NQ, 4)
QIdx == {i \in 0..(NQ4 + Pow(NQ, 5)) : i <= NQ4 \/ Tier = "thorough" \/ (i + Seed) % 8 = 0}   \* 0: the empty literal

Init == len = 0 /\ idx = 0
\* thorough (4 tokens, 6.8 M strings) is sampled: a Seed-dependent residue class of the indices
Stride == IF MaxTok = 4 THEN 23 ELSE 1
Next == \/ len = 0 /\ len' \in (1..MaxTok) \cup {7, 8, 9} /\ idx' = 0
        \/ len = 7 /\ idx = 0 /\ idx' \in {i + 1 : i \in QIdx} /\ UNCHANGED len
        \/ len = 8 /\ idx = 0 /\ idx' \in CharIdx /\ UNCHANGED len
        \/ len \in 1..4 /\ idx = 0 /\ idx' \in {i \in 1..Pow(N, len) : len < 4 \/ (i + Seed) % Stride = 0} /\ UNCHANGED len
        \/ len = 9 /\ idx = 0 /\ idx' \in 1..NExprs /\ UNCHANGED len
IsCase == idx > 0
Export == IsCase =>
   IF len = 9 THEN PrintT("@@ECASE " \o ToJson([expr |-> ExprOfIndex(idx - 1, 1)]))
   ELSE IF len = 7 THEN PrintT("@@QCASE " \o ToJson([chars |-> IF idx = 1 THEN <<>> ELSE QOfIndex(idx - 2, 1)]))
   ELSE IF len = 8 THEN PrintT("@@CCASE " \o ToJson([chars |-> CharsOfIndex(idx - 1, 1)]))
   ELSE PrintT("@@TCASE " \o ToJson([toks |-> Nth(len, idx - 1)]))
=============================================================================
