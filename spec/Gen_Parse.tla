----------------------------- MODULE Gen_Parse -----------------------------
(***************************************************************************)
(* The universe of schema texts for the parser/formatter properties         *)
(* (C11, C16, C17; base schemas of C10 and C13): abstract syntax trees,      *)
(* their token streams (rendered under several layouts by the harness) and   *)
(* the File each denotes.                                                    *)
(*   part "seq"   : every sequence of 1..MaxSeq definitions over the         *)
(*                  definition variants (attributes of one definition must    *)
(*                  not leak to the next, in every order)                     *)
(*   part "items" : every sequence of 1..MaxItems field variants inside a     *)
(*                  struct, a message, a union (branches) and an enum         *)
(*   part "types" : every type expression of the shape universe in both       *)
(*                  array spellings, in a struct and in a message             *)
(***************************************************************************)
EXTENDS WireUniverse, BebopSchema, Json

VARIABLES part, ci
vars == <<part, ci>>

Nm(p, n) == p \o ToString(n)
Fd(name, t, idx, dep, doc, tags, trail) ==
  [name |-> name, t |-> t, idx |-> idx, dep |-> dep, doc |-> doc, tags |-> tags, trail |-> trail]
PlainF(name, t, idx) == Fd(name, t, idx, "", NoDoc, <<>>, "")
NoOp == <<0, 0, 0, 0>>
Tag(text, key, value, boolean) == [text |-> text, tag |-> [key |-> key, value |-> value, boolean |-> boolean]]

-----------------------------------------------------------------------------
(* definition variants; n makes the names unique *)
NVariants == 18
DV(k, n) ==
  CASE k = 1 -> [k |-> "struct", name |-> Nm("Sa", n), ro |-> FALSE, op |-> "", opval |-> NoOp, doc |-> NoDoc, asp |-> "post",
                 fields |-> << PlainF("a", P("int32"), 0), PlainF("b", A(P("string")), 0) >>]
    [] k = 2 -> [k |-> "struct", name |-> Nm("Sb", n), ro |-> TRUE, op |-> "0x12345678", opval |-> <<120, 86, 52, 18>>,
                 doc |-> NoDoc, asp |-> "post", fields |-> << PlainF("x", P("guid"), 0) >>]
    [] k = 3 -> [k |-> "struct", name |-> Nm("Sc", n), ro |-> FALSE, op |-> "\"ABCD\"", opval |-> <<65, 66, 67, 68>>,
                 doc |-> LineDoc(" documented struct"), asp |-> "pre",
                 fields |-> << PlainF("m", M("string", A(P("byte"))), 0) >>]
    [] k = 4 -> [k |-> "message", name |-> Nm("Ma", n), op |-> "", opval |-> NoOp, doc |-> BlockDoc(" a message "), asp |-> "post",
                 fields |-> << PlainF("a", P("int32"), 1), Fd("b", P("string"), 2, "old", NoDoc, <<>>, "") >>]
    [] k = 5 -> [k |-> "union", name |-> Nm("Ua", n), op |-> "", opval |-> NoOp, doc |-> NoDoc,
                 branches |-> << [idx |-> 1, dep |-> "", doc |-> NoDoc,
                                  def |-> [k |-> "struct", name |-> Nm("UaS", n), ro |-> FALSE, op |-> "", opval |-> NoOp, doc |-> NoDoc,
                                           asp |-> "post", fields |-> << PlainF("x", P("byte"), 0) >>]],
                                 [idx |-> 2, dep |-> "", doc |-> NoDoc,
                                  def |-> [k |-> "message", name |-> Nm("UaM", n), op |-> "", opval |-> NoOp, doc |-> NoDoc,
                                           asp |-> "post", fields |-> << PlainF("y", P("int32"), 1) >>]] >>]
    [] k = 6 -> [k |-> "enum", name |-> Nm("Ea", n), base |-> "", flags |-> FALSE, doc |-> NoDoc,
                 members |-> << [name |-> "A", lit |-> <<"1">>, val |-> <<1, 0, 0, 0>>, dep |-> "", doc |-> NoDoc],
                                [name |-> "B", lit |-> <<"2">>, val |-> <<2, 0, 0, 0>>, dep |-> "", doc |-> NoDoc],
                                [name |-> "C", lit |-> <<"010">>, val |-> <<8, 0, 0, 0>>, dep |-> "", doc |-> NoDoc],      \* a leading 0: octal
                                [name |-> "D", lit |-> <<"0x1F">>, val |-> <<31, 0, 0, 0>>, dep |-> "", doc |-> NoDoc] >>]
    [] k = 7 -> [k |-> "enum", name |-> Nm("Eb", n), base |-> "int64", flags |-> FALSE, doc |-> LineDoc(" typed"),
                 members |-> << [name |-> "A", lit |-> <<"-1">>, val |-> FF(8), dep |-> "", doc |-> NoDoc],
                                [name |-> "B", lit |-> <<"0x10">>, val |-> <<16>> \o Z(7), dep |-> "gone", doc |-> NoDoc] >>]
    [] k = 8 -> [k |-> "enum", name |-> Nm("Ec", n), base |-> "", flags |-> TRUE, doc |-> NoDoc,
                 members |-> << [name |-> "A", lit |-> <<"1">>, val |-> <<1, 0, 0, 0>>, dep |-> "", doc |-> NoDoc],
                                [name |-> "B", lit |-> <<"2">>, val |-> <<2, 0, 0, 0>>, dep |-> "", doc |-> NoDoc],
                                [name |-> "C", lit |-> <<"A", "|", "B">>, val |-> <<3, 0, 0, 0>>, dep |-> "", doc |-> NoDoc],
                                [name |-> "D", lit |-> <<"1", "<<", "3">>, val |-> <<8, 0, 0, 0>>, dep |-> "", doc |-> NoDoc] >>]
    [] k = 9 -> [k |-> "const", t |-> "int32", name |-> Nm("ca", n), lit |-> "-5", doc |-> NoDoc]
    [] k = 10 -> [k |-> "const", t |-> "string", name |-> Nm("cb", n), lit |-> "\"hi\"", doc |-> LineDoc(" a const")]
    [] k = 11 -> [k |-> "import", path |-> Nm("other", n) \o ".bop"]
    [] k = 12 -> [k |-> "message", name |-> Nm("Mb", n), op |-> "7", opval |-> <<7, 0, 0, 0>>, doc |-> NoDoc, asp |-> "post",
                  fields |-> << PlainF("t", R(Nm("Sa", n)), 3) >>]
    [] k = 13 -> [k |-> "enum", name |-> Nm("Ed", n), base |-> "uint8", flags |-> TRUE, doc |-> NoDoc,
                  members |-> << [name |-> "X", lit |-> <<"0x80">>, val |-> <<128>>, dep |-> "", doc |-> NoDoc],
                                 [name |-> "Y", lit |-> <<"(", "X", ">>", "1", ")", "|", "1">>, val |-> <<65>>, dep |-> "", doc |-> NoDoc] >>]

    [] k = 14 -> [k |-> "struct", name |-> Nm("Sd", n), ro |-> FALSE, op |-> "", opval |-> NoOp,
                  doc |-> BlockDoc("\n * javadoc style\n *\n * second paragraph\n "), asp |-> "post",
                  fields |-> << PlainF("q", P("uint64"), 0) >>]
    [] k = 15 -> [k |-> "import", path |-> "dir\\sub" \o ToString(n) \o ".bop",          \* the path contains ONE backslash ...
                  lit |-> "\"dir\\\\sub" \o ToString(n) \o ".bop\""]                     \* ... written as an escape in the literal
    [] k = 16 -> [k |-> "struct", name |-> Nm("Se", n), ro |-> FALSE, op |-> "0x21", opval |-> <<33, 0, 0, 0>>,
                  doc |-> LineDoc(" the doc below the opcode"), asp |-> "post", attrfirst |-> TRUE,
                  fields |-> << PlainF("r", P("int32"), 0) >>]
    [] k = 17 -> [k |-> "enum", name |-> Nm("Ee", n), base |-> "", flags |-> TRUE, doc |-> BlockDoc(" flags first, then this "), attrfirst |-> TRUE,
                  members |-> << [name |-> "A", lit |-> <<"1">>, val |-> <<1, 0, 0, 0>>, dep |-> "", doc |-> NoDoc],
                                 [name |-> "B", lit |-> <<"2">>, val |-> <<2, 0, 0, 0>>, dep |-> "", doc |-> NoDoc] >>]
    [] k = 18 -> [k |-> "message", name |-> Nm("Mc", n), op |-> "\"WXYZ\"", opval |-> <<87, 88, 89, 90>>,
                  doc |-> LineDoc(" one") \o LineDoc(" two"), asp |-> "post", attrfirst |-> TRUE,
                  fields |-> << PlainF("s", P("string"), 1) >>]

MaxSeq == IF Tier = "thorough" THEN 3 ELSE 2
RECURSIVE Pow(_, _)
Pow(b, e) == IF e = 0 THEN 1 ELSE b * Pow(b, e - 1)
\* number of sequences of length 1..m over n symbols, and the i-th of them
NSeqs(n, m) == SumSeq([l \in 1..m |-> Pow(n, l)])
RECURSIVE NthSeq(_, _, _)
NthSeq(n, l, i) == IF l = 0 THEN <<>> ELSE <<(i % n) + 1>> \o NthSeq(n, l - 1, i \div n)   \* i in 0..n^l-1
RECURSIVE SeqOfIndex(_, _, _)
SeqOfIndex(n, i, l) == IF i < Pow(n, l) THEN NthSeq(n, l, i) ELSE SeqOfIndex(n, i - Pow(n, l), l + 1)   \* i 0-based

SeqItems(i) == LET ks == SeqOfIndex(NVariants, i - 1, 1) IN [j \in 1..Len(ks) |-> DV(ks[j], j)]

-----------------------------------------------------------------------------
(* field variants inside each kind of container *)
NFieldVariants == 13
FV(k, j, idx) ==   \* j-th field of the container; idx used by messages
  LET nm == Nm("f", j) IN
  CASE k = 1 -> PlainF(nm, P("int32"), idx)
    [] k = 2 -> Fd(nm, P("string"), idx, "use g", NoDoc, <<>>, "")
    [] k = 3 -> Fd(nm, P("uint8"), idx, "", LineDoc(" one line"), <<>>, "")
    [] k = 4 -> Fd(nm, A(P("int64")), idx, "", BlockDoc(" block "), <<>>, "")
    [] k = 5 -> Fd(nm, P("bool"), idx, "", NoDoc, << Tag("json:\"" \o nm \o ",omitempty\"", "json", nm \o ",omitempty", FALSE), Tag("flag" \o nm, "flag" \o nm, "", TRUE) >>, "")
    [] k = 6 -> Fd(nm, IF j % 2 = 1 THEN P("guid") ELSE M("string", A(P("guid"))), idx, "", NoDoc, <<>>, " trailing remark")   \* (lines of different widths)
    [] k = 7 -> Fd(nm, M("uint32", P("date")), idx, "both", LineDoc(" line one") \o LineDoc(" line two"), <<>>, "")
    [] k = 8 -> Fd(nm, P("float64"), idx, "", BlockDoc(" first paragraph\n\n   second paragraph after an empty line\n "), <<>>, "")
    [] k = 9 -> PlainF(nm, P("int16"), idx) @@ ("idxlit" :> ("0" \o ToString(idx)))   \* message indices are decimal: 010 is ten
    [] k = 10 -> Fd(nm, P("uint16"), idx, "first the attribute", LineDoc(" then the doc"), <<>>, "") @@ ("attrfirst" :> TRUE)
    [] k = 12 -> Fd(nm, P("int64"), idx, EmptyDep, NoDoc, <<>>, "")          \* [deprecated("")]: deprecated, with an empty reason
    [] k = 13 -> Fd(nm, P("uint32"), idx, "50% done, %d of %s, 100%", NoDoc, <<>>, "")     \* (a message is text, not a format)
    [] k = 11 -> Fd(nm, P("string"), idx, "above a tag", NoDoc, << Tag("db:\"" \o nm \o "\"", "db", nm, FALSE) >>, "") @@ ("attrfirst" :> TRUE)

MaxItems == IF Tier = "thorough" THEN 3 ELSE 2
NItemSeqs == NSeqs(NFieldVariants, MaxItems)
Containers == <<"struct", "message", "union", "enum">>

EnumMember(k, j) ==
  LET f == FV(k, j, j) IN
  [name |-> Nm("O", j), lit |-> <<(IF k = 9 THEN "0" ELSE "") \o ToString(j)>>, val |-> <<j, 0, 0, 0>>, dep |-> f.dep,
   doc |-> f.doc, attrfirst |-> AttrFirst(f)]

ItemsCase(i) ==   \* i in 1..4*NItemSeqs
  LET c == Containers[((i - 1) \div NItemSeqs) + 1]
      ks == SeqOfIndex(NFieldVariants, (i - 1) % NItemSeqs, 1)
  IN CASE c = "struct" -> << [k |-> "struct", name |-> "Box", ro |-> FALSE, op |-> "", opval |-> NoOp, doc |-> NoDoc, asp |-> "post",
                               fields |-> [j \in 1..Len(ks) |-> FV(ks[j], j, 0)]] >>
       [] c = "message" -> << [k |-> "message", name |-> "Box", op |-> "", opval |-> NoOp, doc |-> NoDoc, asp |-> "post",
                                fields |-> [j \in 1..Len(ks) |-> FV(ks[j], j, j * 2)]] >>
       [] c = "union" -> << [k |-> "union", name |-> "Box", op |-> "", opval |-> NoOp, doc |-> NoDoc,
                              branches |-> [j \in 1..Len(ks) |->
                                 LET f == FV(ks[j], j, 1) IN
                                 [idx |-> j, dep |-> f.dep, doc |-> f.doc, attrfirst |-> AttrFirst(f), semi |-> (j % 2 = 0) \/ f.trail # "", trail |-> f.trail,
                                  def |-> IF j % 2 = 1
                                          THEN [k |-> "struct", name |-> Nm("Br", j), ro |-> FALSE, op |-> "", opval |-> NoOp, doc |-> NoDoc,
                                                asp |-> "post", fields |-> << [f EXCEPT !.dep = "", !.doc = NoDoc, !.idx = 0] >>]
                                          ELSE [k |-> "message", name |-> Nm("Br", j), op |-> "", opval |-> NoOp, doc |-> NoDoc,
                                                asp |-> "post", fields |-> << [f EXCEPT !.dep = "", !.doc = NoDoc] >>]]]] >>
       [] c = "enum" -> << [k |-> "enum", name |-> "Box", base |-> "", flags |-> FALSE, doc |-> NoDoc,
                             members |-> [j \in 1..Len(ks) |-> EnumMember(ks[j], j)]] >>

-----------------------------------------------------------------------------
(* type expressions *)
TypeShapes == Depth0 \o Depth1 \o Depth2
NTypeCases == Len(TypeShapes) * 2 * 2
TypesCase(i) ==
  LET sh == TypeShapes[((i - 1) \div 4) + 1]
      asp == IF ((i - 1) \div 2) % 2 = 0 THEN "post" ELSE "pre"
      inMsg == (i - 1) % 2 = 1
  IN IF inMsg
     THEN << [k |-> "message", name |-> "Holder", op |-> "", opval |-> NoOp, doc |-> NoDoc, asp |-> asp,
              fields |-> << PlainF("v", sh.t, 1), PlainF("w", P("bool"), 2) >>] >>
     ELSE << [k |-> "struct", name |-> "Holder", ro |-> FALSE, op |-> "", opval |-> NoOp, doc |-> NoDoc, asp |-> asp,
              fields |-> << PlainF("v", sh.t, 0), PlainF("w", P("bool"), 0) >>] >>

-----------------------------------------------------------------------------
(* trailers: what may follow the last definition - comments that document nothing *)
Trailers == << << NL, "/* the end */" >>, << NL, "// the end" >>, << "/* same line */" >>, << NL, "/* one */", SL, "/* two */" >>,
               << NL, "// one", NL, "// two" >>, << NL, "/**\n * javadoc\n */" >> >>
NTrailerCases == NVariants * Len(Trailers)
TrailerItems(i) == << DV(((i - 1) % NVariants) + 1, 1) >>
TrailerOf(i) == Trailers[((i - 1) \div NVariants) + 1]

Parts == <<"seq", "items", "types", "trailer">>
Count(p) == CASE p = "seq" -> NSeqs(NVariants, MaxSeq)
              [] p = "items" -> 4 * NItemSeqs
              [] p = "types" -> NTypeCases
              [] p = "trailer" -> NTrailerCases
Items == CASE part = "seq" -> SeqItems(ci)
           [] part = "items" -> ItemsCase(ci)
           [] part = "types" -> TypesCase(ci)
           [] part = "trailer" -> TrailerItems(ci)
\* the text: the items, then (trailer part) comments that belong to nothing
Text == IF part = "trailer" THEN Tokens(Items) \o TrailerOf(ci) ELSE Tokens(Items)

Init == part = "" /\ ci = 0
Next == \/ part = "" /\ part' \in {"seq", "items", "types", "trailer"} /\ UNCHANGED ci
        \/ part # "" /\ ci = 0 /\ ci' \in 1..Count(part) /\ UNCHANGED part
IsCase == ci > 0

\* sanity of the meaning function: as many definitions in the File as items of each kind
Wellformed == IsCase =>
   LET f == FileOf(Items) IN
   Len(f.imports) + Len(f.consts) + Len(f.enums) + Len(f.structs) + Len(f.messages) + Len(f.unions) = Len(Items)

Export == IsCase => PrintT("@@PCASE " \o ToJson([part |-> part, ci |-> ci, tokens |-> Text, file |-> FileOf(Items),
                                                  asisfile |-> FileOfX(Items, TRUE)]))
=============================================================================
