------------------------------ MODULE Literals ------------------------------
(***************************************************************************)
(* The values of literals, [flags] expressions and opcodes (C15), computed  *)
(* on byte sequences because TLC's integers are 32 bit.                     *)
(*   literal ::= [neg, base (10|16), digits]   e.g. -0x1F = [TRUE,16,<<1,15>>] *)
(*   expr    ::= [op |-> "lit", lit] | [op |-> "ref", name]                   *)
(*             | [op |-> "|" | "&" | "<<" | ">>", l, r]   (written fully       *)
(*               parenthesised, so no associativity is assumed)               *)
(* Integer arithmetic is two's complement at the width of the type; shifts    *)
(* are logical for unsigned and arithmetic for signed types; a shift count    *)
(* is the right operand's value at the same type.                             *)
(***************************************************************************)
EXTENDS Integers, Sequences, SequencesExt, TLC

HexDigit == <<"0","1","2","3","4","5","6","7","8","9","a","b","c","d","e","f">>
RECURSIVE DigitsText(_, _)
DigitsText(ds, base) == IF ds = <<>> THEN "" ELSE HexDigit[ds[1] + 1] \o DigitsText(Tail(ds), base)
LitText(l) == (IF l.neg THEN "-" ELSE "") \o (IF l.base = 16 THEN "0x" ELSE "") \o DigitsText(l.digits, l.base)

\* bytes * m + a, little-endian, fixed width (overflow is dropped)
RECURSIVE MulAdd(_, _, _)
MulAdd(bs, m, a) == IF bs = <<>> THEN <<>>
                    ELSE LET x == bs[1] * m + a IN <<x % 256>> \o MulAdd(Tail(bs), m, x \div 256)
RECURSIVE Magnitude(_, _, _)
Magnitude(ds, base, acc) == IF ds = <<>> THEN acc ELSE Magnitude(Tail(ds), base, MulAdd(acc, base, ds[1]))
Zeros(w) == [i \in 1..w |-> 0]
Not(bs) == [i \in 1..Len(bs) |-> 255 - bs[i]]
Negate(bs) == MulAdd(Not(bs), 1, 1)
\* the literal's value at width w (two's complement)
LitBytes(l, w) == LET m == Magnitude(l.digits, l.base, Zeros(w)) IN IF l.neg THEN Negate(m) ELSE m
\* does the magnitude fit the type?  computed at 9 bytes
Fits(l, w, signed) ==
  LET m == Magnitude(l.digits, l.base, Zeros(9))
      hiZero == \A i \in (w + 1)..9 : m[i] = 0
  IN IF ~signed THEN hiZero /\ (~l.neg \/ m = Zeros(9))
     ELSE IF ~l.neg THEN hiZero /\ m[w] < 128
     ELSE hiZero /\ (m[w] < 128 \/ (m[w] = 128 /\ \A i \in 1..(w - 1) : m[i] = 0))

-----------------------------------------------------------------------------
(* bit vectors, least significant bit first *)
ByteBits(b) == [i \in 1..8 |-> (b \div (2 ^ (i - 1))) % 2]
ToBits(bs) == FlattenSeq([i \in 1..Len(bs) |-> ByteBits(bs[i])])
FromBits(bits) == [i \in 1..(Len(bits) \div 8) |->
                     bits[8*i-7] + 2*bits[8*i-6] + 4*bits[8*i-5] + 8*bits[8*i-4] + 16*bits[8*i-3] + 32*bits[8*i-2] + 64*bits[8*i-1] + 128*bits[8*i]]
BitAnd(a, b) == LET ta == TLCEval(ToBits(a))  tb == TLCEval(ToBits(b)) IN FromBits([i \in 1..(8 * Len(a)) |-> ta[i] * tb[i]])
BitOr(a, b) == LET ta == TLCEval(ToBits(a))  tb == TLCEval(ToBits(b)) IN FromBits([i \in 1..(8 * Len(a)) |-> IF ta[i] + tb[i] > 0 THEN 1 ELSE 0])
\* the shift count: the right operand as a number, saturated at 64 (any count >= width behaves alike)
Count(bs, signed) == IF signed /\ bs[Len(bs)] >= 128 THEN -1
                     ELSE IF \E i \in 2..Len(bs) : bs[i] # 0 THEN 64
                     ELSE IF bs[1] > 64 THEN 64 ELSE bs[1]
Shl(a, k) == LET n == 8 * Len(a)  bits == TLCEval(ToBits(a)) IN
             FromBits([i \in 1..n |-> IF i - k >= 1 THEN bits[i - k] ELSE 0])
Shr(a, k, signed) == LET n == 8 * Len(a)  bits == TLCEval(ToBits(a))  fill == IF signed THEN bits[n] ELSE 0 IN
             FromBits([i \in 1..n |-> IF i + k <= n THEN bits[i + k] ELSE fill])

\* value of an expression; env is a sequence of [name, val] of the members defined so far
RECURSIVE Eval(_, _, _, _)
Lookup(env, name) == env[CHOOSE i \in 1..Len(env) : env[i].name = name].val
Eval(e, env, w, signed) ==
  CASE e.op = "lit" -> LitBytes(e.lit, w)
    [] e.op = "ref" -> Lookup(env, e.name)
    [] OTHER ->
        \* TLCEval forces the operands once (TLC would otherwise re-evaluate them at every use)
        LET l == TLCEval(Eval(e.l, env, w, signed))  r == TLCEval(Eval(e.r, env, w, signed)) IN
        CASE e.op = "|" -> BitOr(l, r)
          [] e.op = "&" -> BitAnd(l, r)
          [] e.op = "<<" -> Shl(l, TLCEval(Count(r, signed)))
          [] e.op = ">>" -> Shr(l, TLCEval(Count(r, signed)), signed)

RECURSIVE ExprTokens(_, _)
ExprTokens(e, top) ==
  CASE e.op = "lit" -> << LitText(e.lit) >>
    [] e.op = "ref" -> << e.name >>
    [] OTHER -> (IF top THEN <<>> ELSE <<"(">>) \o ExprTokens(e.l, FALSE) \o << e.op >> \o ExprTokens(e.r, FALSE)
                \o (IF top THEN <<>> ELSE <<")">>)

\* opcode of four ASCII characters: little-endian u32
OpcodeOfChars(cs) == cs      \* the four character codes ARE the four little-endian bytes
=============================================================================
