------------------------------ MODULE Trace_Cli ------------------------------
(***************************************************************************)
(* Replays the system calls that strace recorded from the real bebopc-go    *)
(* and bebopfmt binaries through the file-system actions of Cli.tla and      *)
(* judges every run:                                                         *)
(*   - TargetIntact at EVERY system-call boundary (each is a crash point):   *)
(*     the target holds its previous content or the complete new content;    *)
(*   - a run that fails (bad input, injected ENOSPC/EACCES/rename failure)    *)
(*     exits non-zero, prints an error, and leaves the target byte-identical; *)
(*   - exit status non-zero iff an error is printed;                          *)
(*   - a successful bebopfmt -w leaves files that parse to the same schema.   *)
(***************************************************************************)
EXTENDS Integers, Sequences, TLC, Json

CONSTANTS Devs
Trace == ndJsonDeserialize("events.ndjson")

Names == {"T", "tmp1", "tmp2", "tmp3"}
Old == [gen |-> 0, len |-> 0]
Absent == [gen |-> -1, len |-> 0]

VARIABLES l, fs, gens, hist, nOK, nKnown, nViol
vars == <<l, fs, gens, hist, nOK, nKnown, nViol>>

Init == /\ l = 1 /\ fs = [p \in Names |-> Absent] /\ gens = 0 /\ hist = <<>>
        /\ nOK = 0 /\ nKnown = 0 /\ nViol = 0

E == Trace[l]
Bump(ok, known, viol) == nOK' = nOK + ok /\ nKnown' = nKnown + known /\ nViol' = nViol + viol
Same == Bump(1, 0, 0)   \* a system call replayed through the file-system model
Track(f) == hist' = Append(hist, f["T"])

Begin == /\ E.ev = "begin"
         /\ fs' = [p \in Names |-> IF p = "T" THEN Old ELSE Absent] /\ gens' = 0 /\ hist' = <<Old>> /\ Same
Open == /\ E.ev = "open"
        /\ IF E.ok /\ (E.trunc \/ fs[E.path] = Absent)
           THEN fs' = [fs EXCEPT ![E.path] = [gen |-> gens + 1, len |-> 0]] /\ gens' = gens + 1
           ELSE UNCHANGED <<fs, gens>>
        /\ Track(fs') /\ Same
Write == /\ E.ev = "write"
         /\ fs' = [fs EXCEPT ![E.path] = [@ EXCEPT !.len = @ + E.n]] /\ UNCHANGED gens
         /\ Track(fs') /\ Same
Rename == /\ E.ev = "rename"
          /\ IF E.ok THEN fs' = [fs EXCEPT ![E.to] = fs[E.from], ![E.from] = Absent] ELSE UNCHANGED fs
          /\ UNCHANGED gens /\ Track(fs') /\ Same
Unlink == /\ E.ev = "unlink"
          /\ IF E.ok THEN fs' = [fs EXCEPT ![E.path] = Absent] ELSE UNCHANGED fs
          /\ UNCHANGED gens /\ Track(fs') /\ Same

\* judgement of a finished run
Intact(final, exit) == \A i \in 1..Len(hist) : hist[i] = Old \/ (exit = 0 /\ hist[i] = final)
Why(e) ==
  IF e.crash THEN e.tool \o " crashed"
  ELSE IF ~e.all_same THEN e.tool \o ": after the run a file of the directory no longer holds the schema (or, if unparsable, the bytes) it held before"
  ELSE IF e.expectfail /\ e.exit = 0 THEN e.tool \o ": the run was made to fail (bad input or an injected fault) but the exit status is 0"
  ELSE IF e.exit # 0 /\ ~e.target_same THEN e.tool \o ": the run failed and the target file no longer has its previous contents"
  ELSE IF (e.exit # 0) # e.printed THEN e.tool \o ": exit status " \o ToString(e.exit) \o " but " \o (IF e.printed THEN "an" ELSE "no") \o " error was printed"
  ELSE IF e.exit = 0 /\ ~e.reparse_same THEN "a successful rewrite left a file that does not parse to the same schema"
  ELSE IF ~Intact(fs["T"], e.exit) THEN e.tool \o ": between two system calls the target held neither its previous nor its complete new contents (a crash there loses the file)"
  ELSE ""
Dev(e, w) ==
  IF "target_not_replaced_atomically" \in Devs /\ ((e.exit # 0 /\ ~e.target_same) \/ ~Intact(fs["T"], e.exit)) /\ ~e.crash
     /\ ~(e.expectfail /\ e.exit = 0) /\ ((e.exit # 0) = e.printed)
  THEN "target_not_replaced_atomically" ELSE ""
End == /\ E.ev = "end"
       /\ LET w == Why(E)  d == IF w = "" THEN "" ELSE Dev(E, w) IN
          /\ Bump(IF w = "" THEN 1 ELSE 0, IF w # "" /\ d # "" THEN 1 ELSE 0, IF w # "" /\ d = "" THEN 1 ELSE 0)
          /\ (w # "") => PrintT("@@V " \o ToJson([l |-> l, cid |-> 1, verdict |-> IF d = "" THEN "VIOLATION" ELSE "KNOWN", why |-> w, dev |-> d]))
       /\ UNCHANGED <<fs, gens, hist>>

Next == l <= Len(Trace) /\ l' = l + 1 /\ (Begin \/ Open \/ Write \/ Rename \/ Unlink \/ End)
Spec == Init /\ [][Next]_vars
TraceAccepted == TLCGet("stats").diameter - 1 = Len(Trace)
Done == l = Len(Trace) + 1 => PrintT("@@COUNTS " \o ToJson([ok |-> nOK, na |-> 0, known |-> nKnown, viol |-> nViol]))
=============================================================================
