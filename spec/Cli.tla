--------------------------------- MODULE Cli ---------------------------------
(***************************************************************************)
(* C19: what a command-line tool may do to the file it (re)writes.          *)
(*                                                                         *)
(* A small file-system model: every path has a content, abstracted to       *)
(* [gen, len]: gen identifies the open-with-truncate (or create) that        *)
(* started this content (0 = the content that existed before the run), len   *)
(* the bytes written since.  The actions are the system calls; each may      *)
(* fail.  A tool is a sequence of steps; Crash may happen in every state.    *)
(*                                                                         *)
(*   TargetIntact: in EVERY state - each is a possible crash point - the     *)
(*   target holds either its previous content or the complete new content.   *)
(*   ExitIffError: the run ends with status 0 iff no step failed.            *)
(*                                                                         *)
(* Two tools are instantiated: "atomic" (write a temporary file, rename it   *)
(* over the target: the ideal) and "inplace" (open the target with O_TRUNC   *)
(* and write: what the pinned CLIs did).  TLC shows TargetIntact for the     *)
(* first under every fault and crash point, and a counterexample for the     *)
(* second.  Trace_Cli.tla replays the system calls recorded by strace from   *)
(* the real binaries through the same file-system actions.                   *)
(***************************************************************************)
EXTENDS Integers, Sequences, FiniteSets, TLC

CONSTANTS Tool,      \* "atomic" | "inplace"
          NWrites    \* number of write calls of the new content

Paths == {"T", "tmp"}
Old == [gen |-> 0, len |-> 7]
Absent == [gen |-> -1, len |-> 0]

VARIABLES fs,        \* path -> content
          gens,      \* generations handed out so far
          pc,        \* program counter of the tool
          w,         \* writes done
          failed,    \* a step has failed
          exit       \* -1 while running; exit status afterwards; 99 = crashed
vars == <<fs, gens, pc, w, failed, exit>>

Init == /\ fs = [p \in Paths |-> IF p = "T" THEN Old ELSE Absent]
        /\ gens = 0 /\ pc = "open" /\ w = 0 /\ failed = FALSE /\ exit = -1

Dest == IF Tool = "atomic" THEN "tmp" ELSE "T"
Running == exit = -1

\* system calls
OpenTrunc(p) == /\ fs' = [fs EXCEPT ![p] = [gen |-> gens + 1, len |-> 0]] /\ gens' = gens + 1
WriteTo(p, n) == fs' = [fs EXCEPT ![p] = [@ EXCEPT !.len = @ + n]] /\ UNCHANGED gens
RenameTo(a, b) == fs' = [fs EXCEPT ![b] = fs[a], ![a] = Absent] /\ UNCHANGED gens
Remove(p) == fs' = [fs EXCEPT ![p] = Absent] /\ UNCHANGED gens

\* tool steps; each system call may fail (then the tool cleans up and exits 1)
StepOpen == /\ Running /\ pc = "open"
            /\ \/ OpenTrunc(Dest) /\ pc' = "write" /\ UNCHANGED <<w, failed, exit>>
               \/ UNCHANGED <<fs, gens, w>> /\ failed' = TRUE /\ pc' = "done" /\ exit' = 1
StepWrite == /\ Running /\ pc = "write"
             /\ \/ /\ w < NWrites /\ WriteTo(Dest, 3) /\ w' = w + 1 /\ UNCHANGED <<pc, failed, exit>>
                \/ /\ w = NWrites /\ pc' = (IF Tool = "atomic" THEN "rename" ELSE "done")
                   /\ exit' = (IF Tool = "atomic" THEN -1 ELSE 0) /\ UNCHANGED <<fs, gens, w, failed>>
                \/ /\ w < NWrites      \* the write fails (ENOSPC, EFBIG ...): possibly after a partial write
                   /\ \E part \in {0, 1} : WriteTo(Dest, part)
                   /\ failed' = TRUE /\ pc' = (IF Tool = "atomic" THEN "cleanup" ELSE "done")
                   /\ exit' = (IF Tool = "atomic" THEN -1 ELSE 1) /\ UNCHANGED w
StepRename == /\ Running /\ pc = "rename"
              /\ \/ RenameTo("tmp", "T") /\ pc' = "done" /\ exit' = 0 /\ UNCHANGED <<w, failed>>
                 \/ UNCHANGED <<fs, gens, w>> /\ failed' = TRUE /\ pc' = "cleanup" /\ UNCHANGED exit
StepCleanup == /\ Running /\ pc = "cleanup"
               /\ Remove("tmp") /\ pc' = "done" /\ exit' = 1 /\ UNCHANGED <<w, failed>>
Crash == /\ Running /\ exit' = 99 /\ UNCHANGED <<fs, gens, pc, w, failed>>

Next == StepOpen \/ StepWrite \/ StepRename \/ StepCleanup \/ Crash
Spec == Init /\ [][Next]_vars /\ WF_vars(StepOpen \/ StepWrite \/ StepRename \/ StepCleanup)

Complete(c) == c.gen > 0 /\ c.len = 3 * NWrites
TargetIntact == fs["T"] = Old \/ Complete(fs["T"])
ExitIffError == (exit \in {0, 1}) => ((exit = 1) = failed)
FailureKeepsOld == exit = 1 => fs["T"] = Old
SuccessIsComplete == exit = 0 => Complete(fs["T"])
Terminates == <>(exit # -1)
=============================================================================
