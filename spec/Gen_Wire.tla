------------------------------ MODULE Gen_Wire ------------------------------
(***************************************************************************)
(* Case generator AND design-level model check for the wire engine.        *)
(*                                                                         *)
(* Every state is one case (schema x value x option set).  TLC checks the   *)
(* design theorems (RoundTrip, SizeIsLen, PrefixIsError, ...) as invariants *)
(* on the ideal codec for exactly the cases it then exports for replay      *)
(* into the real generated code (Export prints one JSON line per case).     *)
(***************************************************************************)
EXTENDS WireUniverse, AsIs, Json

CONSTANTS OptMode,     \* "default": only the empty option set; "cover": OptMasks
          ValMode,     \* "all": every value of the root; "first": one value (schema x option universes);
                       \* "few": the first three values
          Muts         \* "none" | "layout": export the structure-aware corruptions of each encoding (C07)

VARIABLES sid, vi, oi

vars == <<sid, vi, oi>>

S == SchemaOf(sid)
V == Vals(S, RootT)[vi]
E == Enc(S, RootT, V)

NOpts == IF OptMode = "default" THEN 1 ELSE Len(OptMasks)
MaskOf(i) == IF OptMode = "default" THEN 0 ELSE OptMasks[i]

\* root state -> one state per schema (vi = 0) -> one state per case; the last
\* level is expanded by all TLC workers in parallel
Init == sid = 0 /\ vi = 0 /\ oi = 0

Next == \/ /\ sid = 0
           /\ sid' \in 1..NSchemas
           /\ UNCHANGED <<vi, oi>>
        \/ /\ sid > 0 /\ vi = 0
           /\ vi' \in 1..(IF ValMode = "first" THEN 1
                           ELSE IF ValMode = "few" /\ Len(Vals(S, RootT)) > 3 THEN 3
                           ELSE Len(Vals(S, RootT)))
           /\ oi' \in 1..NOpts
           /\ UNCHANGED sid

IsCase == vi > 0

-----------------------------------------------------------------------------
(* Design theorems, checked on every case *)
SizeIsLen == IsCase => Size(S, RootT, V) = Len(E)
LayoutLen == IsCase => Len(Lay(S, RootT, V)) = Len(E)

RoundTrip == IsCase => LET r == DecTop(S, RootT, E) IN
             /\ r.ok
             /\ r.at = Len(E)
             /\ Canon(S, RootT, r.v) = Norm(S, RootT, V)
             /\ Enc(S, RootT, r.v) = E

\* every cut of encodings up to 160 bytes; of longer ones the first and last 12 cuts and every 97th in between
\* (the check is quadratic in the length; the REAL decoders are still run on every cut, see C06)
CutPoints == IF Len(E) <= 160 THEN 0..(Len(E) - 1)
             ELSE {k \in 0..(Len(E) - 1) : k < 12 \/ k >= Len(E) - 12 \/ k % 97 = 0}
PrefixIsError == IsCase => \A k \in CutPoints : ~DecTop(S, RootT, SubSeq(E, 1, k)).ok

\* the ideal decoder is total on every corruption (and, by construction, never
\* "allocates" a count it has not checked against the remaining input)
\* at most 150 corruptions per encoding, spread evenly over the list (records with hundreds of elements)
Thin(q, n) == IF Len(q) <= n THEN q ELSE [i \in 1..n |-> q[(((i - 1) * Len(q)) \div n) + 1]]
\* (every corruption costs three model decodes: encodings beyond MaxMutLen bytes are not corrupted)
MaxMutLen == IF Tier = "thorough" THEN 160 ELSE 96
Inputs == IF Muts = "layout" /\ Len(E) <= MaxMutLen THEN Thin(Mutations(E, Lay(S, RootT, V)), 150) ELSE <<>>
\* C05: two further records follow the case's value on the same stream, and the
\* fragmentation patterns (caps on the bytes one Read may return, applied cyclically)
Streams == Muts = "stream"
AllVals == Vals(S, RootT)
SeqVals == IF Streams THEN << Cyc(AllVals, vi + 1), Cyc(AllVals, vi + 2) >> ELSE <<>>
SeqEncs == [i \in 1..Len(SeqVals) |-> Enc(S, RootT, SeqVals[i])]
Frags == <<1, 2, 3, 5>>
Patterns == IF ~Streams THEN <<>>
            ELSE [i \in 1..4 |-> <<Frags[i]>>]
              \o [i \in 1..16 |-> <<Frags[((i - 1) \div 4) + 1], Frags[((i - 1) % 4) + 1]>>]
              \o (IF Tier = "thorough"
                  THEN [i \in 1..64 |-> <<Frags[((i - 1) \div 16) + 1], Frags[(((i - 1) \div 4) % 4) + 1], Frags[((i - 1) % 4) + 1]>>]
                  ELSE <<>>)

\* what the as-is model predicts for each input (used to run only a sample of the
\* inputs that are known to run away: each costs a watchdog timeout or an OOM kill)
AllAllocDevs == {"alloc_before_check:arr", "alloc_before_check:map", "stream_trusts_count"}
PredByte == [i \in 1..Len(Inputs) |-> AsIsByteFailure(AllAllocDevs, S, RootT, Inputs[i])]
PredStream == [i \in 1..Len(Inputs) |-> AsIsStreamFailure(AllAllocDevs, S, RootT, Inputs[i])]
DecTotal == IsCase => \A i \in 1..Len(Inputs) : DecTop(S, RootT, Inputs[i]).ok \in BOOLEAN

\* every pair of options sees all four on/off combinations in PairwiseMasks
PairwiseCovers ==
  \A i, j \in 1..5 : i < j =>
     \A bi, bj \in BOOLEAN :
        \E k \in 1..Len(PairwiseMasks) : Bit(PairwiseMasks[k], i) = bi /\ Bit(PairwiseMasks[k], j) = bj
ASSUME PairwiseCovers

-----------------------------------------------------------------------------
(* Export *)
Export ==
  /\ (sid > 0 /\ vi = 0) =>
        PrintT("@@SCHEMA " \o ToJson([sid |-> sid, defs |-> S, tag |-> ShapeOf(sid).tag,
                                      ctx |-> CtxOf(sid), ft |-> ShapeOf(sid).t]))
  /\ IsCase => PrintT("@@CASE " \o ToJson([sid |-> sid, vi |-> vi, opts |-> OptSetOfMask(MaskOf(oi)),
                                 mask |-> MaskOf(oi), root |-> "Root",
                                 v |-> V, enc |-> E, lay |-> Lay(S, RootT, V), inputs |-> Inputs,
                                 predb |-> PredByte, preds |-> PredStream,
                                 seq |-> SeqVals, seqenc |-> SeqEncs, scheds |-> Patterns]))
=============================================================================
