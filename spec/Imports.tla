------------------------------- MODULE Imports -------------------------------
(***************************************************************************)
(* C18: import resolution and cycle search.                                 *)
(*                                                                         *)
(* A case is an import graph over files 1..n (file 1 is the one compiled),  *)
(* an assignment of go_package constants, a placement of files in           *)
(* directories and an import mode.  The module gives                        *)
(*   - the declarative meaning: reachable files, the package graph and its   *)
(*     cyclicity, which imported files lack a go_package, the order in which *)
(*     inlining concatenates files;                                          *)
(*   - the two algorithms AS CODED, as step-counting recursive operators:    *)
(*     the worklist over imports with path-keyed de-duplication              *)
(*     (gen.go:286-343) and the DFS cycle search whose visited set is not    *)
(*     consulted during descent unless "dfs_consults_visited" is in Fixes    *)
(*     (importgraph.go:32-65).                                               *)
(* TLC checks, for EVERY graph in the bound: both algorithms terminate, the  *)
(* worklist collects exactly the reachable set, the DFS reports a cycle iff   *)
(* the package graph reachable from the root is cyclic, and the DFS step      *)
(* count stays polynomial when visited is consulted.                          *)
(***************************************************************************)
EXTENDS Integers, Sequences, FiniteSets, TLC, Json

CONSTANTS Tier, Seed

VARIABLES n, g, pk, dr, mode
vars == <<n, g, pk, dr, mode>>

MaxN == 4
Edge(nn, gg, i, j) == (gg \div (2 ^ ((i - 1) * nn + (j - 1)))) % 2 = 1
Succ(nn, gg, i) == {j \in 1..nn : Edge(nn, gg, i, j)}
SuccSeq(nn, gg, i) == SelectSeq([j \in 1..nn |-> j], LAMBDA j : Edge(nn, gg, i, j))
RECURSIVE PopCount(_)
PopCount(x) == IF x = 0 THEN 0 ELSE (x % 2) + PopCount(x \div 2)

\* go_package assignments: pk is a function file -> package name ("" = none)
PkgAssignments(nn) ==
  { [i \in 1..nn |-> "p" \o ToString(i)],                              \* all distinct
    [i \in 1..nn |-> IF i = 1 THEN "p1" ELSE "shared"],                \* imported files share one
    [i \in 1..nn |-> "shared"],                                        \* everything in one package
    [i \in 1..nn |-> IF i = nn THEN "" ELSE "p" \o ToString(i)],       \* the last file has none
    [i \in 1..nn |-> ""] }                                             \* no file has one
\* directory placements: "" = the root's directory
DirAssignments(nn) ==
  { [i \in 1..nn |-> ""],
    [i \in 1..nn |-> IF i = nn /\ nn > 1 THEN "sub" ELSE ""],
    [i \in 1..nn |-> IF i = 2 THEN "sub" ELSE ""] }

-----------------------------------------------------------------------------
(* Declarative meaning *)
RECURSIVE ReachFrom(_, _, _, _)
ReachFrom(nn, gg, S, k) ==   \* files reachable from the set S in at most k more steps
  IF k = 0 THEN S ELSE ReachFrom(nn, gg, S \cup UNION {Succ(nn, gg, i) : i \in S}, k - 1)
Imported == ReachFrom(n, g, Succ(n, g, 1), n)          \* files that get imported (the root counts only if re-imported)
Loaded == {1} \cup Imported                            \* files whose import lines are followed

\* package graph: an edge pkg(i) -> pkg(j) for every import i -> j of a loaded file
PkgNodes == {pk[i] : i \in Loaded}
PkgEdge(a, b) == \E i \in Loaded : \E j \in Succ(n, g, i) : pk[i] = a /\ pk[j] = b
RECURSIVE PkgReach(_, _)
PkgReach(S, k) == IF k = 0 THEN S ELSE PkgReach(S \cup {b \in PkgNodes : \E a \in S : PkgEdge(a, b)}, k - 1)
PkgCyclic == \E a \in PkgNodes : a \in PkgReach({b \in PkgNodes : PkgEdge(a, b)}, n)
MissingPkg == \E j \in Imported : pk[j] = ""
ImportCyclic == \E i \in Loaded : i \in ReachFrom(n, g, Succ(n, g, i), n)

\* AS-IS: import paths are resolved against the ROOT's directory, not the importing file's
PathBroken == \E i \in Loaded : dr[i] # dr[1] /\ Succ(n, g, i) # {}

-----------------------------------------------------------------------------
(* The worklist as coded: a growing list of imports, de-duplicated by path after the file was read *)
RECURSIVE Worklist(_, _, _, _)
Worklist(list, at, seen, steps) ==   \* returns [files, steps]
  IF at > Len(list) THEN [files |-> seen, steps |-> steps]
  ELSE LET j == list[at] IN
       IF j \in seen THEN Worklist(list, at + 1, seen, steps + 1)
       ELSE Worklist(list \o SuccSeq(n, g, j), at + 1, seen \cup {j}, steps + 1)
WL == Worklist(SuccSeq(n, g, 1), 1, {}, 0)
\* the order in which combined mode concatenates the imported files (first occurrence in the worklist)
RECURSIVE WorkOrder(_, _, _)
WorkOrder(list, at, acc) ==
  IF at > Len(list) THEN acc
  ELSE LET j == list[at] IN
       IF \E q \in 1..Len(acc) : acc[q] = j THEN WorkOrder(list, at + 1, acc)
       ELSE WorkOrder(list \o SuccSeq(n, g, j), at + 1, Append(acc, j))
InlineOrder == WorkOrder(SuccSeq(n, g, 1), 1, <<>>)

(* The edges as the worklist adds them: one per list entry, also for files already imported *)
RECURSIVE WorkEdges(_, _, _, _)
WorkEdges(list, at, seen, acc) ==   \* list entries are <<importing file, imported file>>
  IF at > Len(list) THEN acc
  ELSE LET e == list[at]  j == e[2]  acc2 == Append(acc, <<pk[e[1]], pk[j]>>) IN
       IF j \in seen THEN WorkEdges(list, at + 1, seen, acc2)
       ELSE WorkEdges(list \o [q \in 1..Len(SuccSeq(n, g, j)) |-> <<j, SuccSeq(n, g, j)[q]>>], at + 1, seen \cup {j}, acc2)
EdgeList == WorkEdges([q \in 1..Len(SuccSeq(n, g, 1)) |-> <<1, SuccSeq(n, g, 1)[q]>>], 1, {}, <<>>)
EdgeSucc(a) == LET occ == SelectSeq(EdgeList, LAMBDA e : e[1] = a) IN [q \in 1..Len(occ) |-> occ[q][2]]
EdgeSources == {EdgeList[q][1] : q \in 1..Len(EdgeList)}

(* The DFS as coded (importgraph.go): visited is only consulted by the outer loop *)
RECURSIVE Dfs(_, _, _, _, _)
RECURSIVE DfsLoop(_, _, _, _, _, _, _)
Dfs(a, stack, visited, steps, consult) ==
  DfsLoop(a, EdgeSucc(a), 1, stack \cup {a}, visited \cup {a}, steps + 1, consult)
DfsLoop(a, succ, k, stack, visited, steps, consult) ==
  IF k > Len(succ) THEN [cycle |-> FALSE, visited |-> visited, steps |-> steps]
  ELSE LET b == succ[k] IN
       IF b \in stack THEN [cycle |-> TRUE, visited |-> visited, steps |-> steps]
       ELSE IF consult /\ b \in visited THEN DfsLoop(a, succ, k + 1, stack, visited, steps, consult)
       ELSE LET r == Dfs(b, stack, visited, steps, consult) IN
            IF r.cycle THEN r ELSE DfsLoop(a, succ, k + 1, stack, r.visited, r.steps, consult)

RECURSIVE FindCycle(_, _, _, _)
FindCycle(nodes, visited, steps, consult) ==   \* nodes: the graph's source nodes in some order
  IF nodes = <<>> THEN [cycle |-> FALSE, visited |-> visited, steps |-> steps]
  ELSE IF Head(nodes) \in visited THEN FindCycle(Tail(nodes), visited, steps, consult)
  ELSE LET r == Dfs(Head(nodes), {}, visited, steps, consult) IN
       IF r.cycle THEN r ELSE FindCycle(Tail(nodes), r.visited, r.steps, consult)
SourceSeq == LET idx == SelectSeq([q \in 1..Len(EdgeList) |-> q],
                                  LAMBDA q : \A r \in 1..(q - 1) : EdgeList[r][1] # EdgeList[q][1])
             IN [q \in 1..Len(idx) |-> EdgeList[idx[q]][1]]

-----------------------------------------------------------------------------
Init == n = 0 /\ g = 0 /\ pk = <<>> /\ dr = <<>> /\ mode = ""
\* the 4-file graphs are restricted to at most 3 (quick) / 5 (thorough) edges and sampled by Seed
\* ... except the small graphs in which the root imports at least two files (a file is then pending while another
\* one's imports are discovered): all of those take part
GraphOK(nn, gg) == \/ nn < 4
                   \/ PopCount(gg) <= 3 /\ Cardinality(Succ(nn, gg, 1) \ {1}) >= 2
                   \/ PopCount(gg) <= (IF Tier = "thorough" THEN 5 ELSE 3) /\ (gg + Seed) % 3 = 0
Next == \/ /\ n = 0
           /\ n' \in 1..MaxN
           /\ g' \in {gg \in 0..(2 ^ (n' * n') - 1) : GraphOK(n', gg)}
           /\ pk' = <<>> /\ dr' = <<>> /\ mode' = ""
        \/ /\ n > 0 /\ mode = ""
           /\ pk' \in PkgAssignments(n)
           /\ dr' \in DirAssignments(n)
           /\ mode' \in {"separate", "combined"}
           /\ UNCHANGED <<n, g>>
IsCase == mode # ""

\* the algorithms do what the declarative definitions say, on every graph
WorklistExact == IsCase => WL.files = Imported
DfsExact == IsCase => /\ FindCycle(SourceSeq, {}, 0, FALSE).cycle = PkgCyclic
                      /\ FindCycle(SourceSeq, {}, 0, TRUE).cycle = PkgCyclic
\* with visited consulted the search is linear in nodes + edges
DfsLinear == IsCase => FindCycle(SourceSeq, {}, 0, TRUE).steps <= Cardinality(PkgNodes) + Len(EdgeList)

SetToSeq(S) == SelectSeq([i \in 1..MaxN |-> i], LAMBDA i : i \in S)
Export == IsCase =>
  PrintT("@@GCASE " \o ToJson([n |-> n, g |-> g, mode |-> mode,
            files |-> [i \in 1..n |-> [pkg |-> pk[i], dir |-> dr[i], imports |-> SuccSeq(n, g, i)]],
            imported |-> SetToSeq(Imported), pkgcyclic |-> PkgCyclic, importcyclic |-> ImportCyclic,
            missingpkg |-> MissingPkg, pathbroken |-> PathBroken, inline |-> InlineOrder,
            dfssteps |-> FindCycle(SourceSeq, {}, 0, FALSE).steps]))
=============================================================================
