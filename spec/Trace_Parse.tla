----------------------------- MODULE Trace_Parse -----------------------------
(***************************************************************************)
(* Judges the observations of the real ReadFile and Format on the texts of  *)
(* Gen_Parse against BebopSchema:                                           *)
(*   C11  parse : ReadFile(text) succeeds and returns FileOf(ast), whatever  *)
(*                the layout                                                 *)
(*   C16  format: Format(text) succeeds, its output is accepted by ReadFile  *)
(*                and denotes StripFile(FileOf(ast)) (comments aside)        *)
(*   C17  format: Format(Format(text)) = Format(text)                        *)
(* Deviations of the pinned formatter are attributed by the constructs the   *)
(* text contains (predicates over its token stream).                         *)
(***************************************************************************)
EXTENDS BebopSchema, Json

CONSTANTS Prop, Devs

Cases == ndJsonDeserialize("cases.ndjson")
Trace == ndJsonDeserialize("events.ndjson")

VARIABLES l, nOK, nKnown, nViol, nNA
vars == <<l, nOK, nKnown, nViol, nNA>>

OKv == [v |-> "OK", why |-> "", dev |-> ""]
NAv == [v |-> "NA", why |-> "", dev |-> ""]
Bad(why) == [v |-> "VIOLATION", why |-> why, dev |-> ""]
Known(dev, why) == [v |-> "KNOWN", why |-> why, dev |-> dev]

HasTok(toks, t) == \E i \in 1..Len(toks) : toks[i] = t
HasPair(toks, a, b) == \E i \in 1..(Len(toks) - 1) : toks[i] = a /\ toks[i + 1] = b
\* T[][]: two postfix array suffixes in a row
MultiDim(toks) == \E i \in 1..(Len(toks) - 3) : toks[i] = "[" /\ toks[i+1] = "]" /\ toks[i+2] = "[" /\ toks[i+3] = "]"
\* a prefix array or a map directly inside another one: array[array[..]], map[k, map[..]], array[map..], map[k, array[..]]
NestedPrefix(toks) == \E i \in 1..(Len(toks) - 2) :
                         toks[i] \in {"[", ","} /\ toks[i+1] \in {"array", "map"} /\ toks[i+2] = "["
                         /\ \E j \in 1..(i - 1) : toks[j] \in {"array", "map"}

\* the construct of the text that the pinned formatter is known to damage ("" if none)
FmtDev(toks) ==
  IF HasTok(toks, ":") /\ "fmt_unsupported:typed_enum" \in Devs THEN "fmt_unsupported:typed_enum"
  ELSE IF HasTok(toks, "flags") /\ "fmt_unsupported:flags" \in Devs THEN "fmt_unsupported:flags"
  ELSE IF HasTok(toks, "import") /\ "fmt_unsupported:import" \in Devs THEN "fmt_unsupported:import"
  ELSE IF MultiDim(toks) /\ "fmt_unsupported:multidim_array" \in Devs THEN "fmt_unsupported:multidim_array"
  ELSE IF HasTok(toks, "readonly") /\ HasTok(toks, "opcode") /\ "fmt_unsupported:readonly_after_opcode" \in Devs THEN "fmt_unsupported:readonly_after_opcode"
  ELSE ""

JudgeC11(e) ==
  LET c == Cases[e.cid] IN
  CASE e.ev = "parse" ->
        IF e.res # "nil" /\ e.unspec THEN NAv    \* a layout whose acceptance is left open: nothing is claimed unless it is accepted
        ELSE IF e.res # "nil" THEN
             IF "flags_register_sticky" \in Devs /\ HasTok(c.tokens, "flags") /\ c.part = "seq"
             THEN Known("flags_register_sticky", "ReadFile rejects a well-formed schema")
             ELSE Bad("ReadFile rejects a well-formed schema (" \o e.layout \o " layout): " \o e.res)
        ELSE IF e.file = c.file THEN OKv
        ELSE IF "union_branch_doc_eaten" \in Devs /\ e.file = c.asisfile
             THEN Known("union_branch_doc_eaten", "the doc comment of a union branch after the first is lost")
        ELSE Bad("ReadFile returns a File that differs from what the text says (" \o e.layout \o " layout)")
    [] OTHER -> NAv

JudgeC16(e) ==
  LET c == Cases[e.cid] IN
  CASE e.ev = "format" ->
        IF e.parse # "nil" THEN NAv       \* not an accepted text: outside the property
        ELSE LET why == IF e.fres # "nil" THEN "Format fails on an accepted schema: " \o e.fres
                        ELSE IF e.reparse # "nil" THEN "Format's output is not accepted by ReadFile"
                        ELSE IF StripFile(e.file2) # StripFile(c.file) THEN "Format's output denotes a different schema"
                        ELSE ""
             IN IF why = "" THEN OKv
                ELSE IF FmtDev(c.tokens) # "" THEN Known(FmtDev(c.tokens), why)
                ELSE Bad(why \o " (" \o e.layout \o " layout)")
    [] e.ev = "reformat" ->
        \* a text-level variant: what the text means is what ReadFile says it means (e.file1)
        IF e.parse # "nil" THEN NAv
        ELSE LET why == IF e.fres # "nil" THEN "Format fails on an accepted schema: " \o e.fres
                        ELSE IF e.reparse # "nil" THEN "Format's output is not accepted by ReadFile"
                        ELSE IF StripFile(e.file2) # StripFile(e.file1) THEN "Format's output denotes a different schema than its input"
                        ELSE ""
             IN IF why = "" THEN OKv
                ELSE IF FmtDev(c.tokens) # "" THEN Known(FmtDev(c.tokens), why)
                ELSE Bad(why \o " (" \o e.layout \o ")")
    [] OTHER -> NAv

JudgeC17(e) ==
  LET c == Cases[e.cid] IN
  CASE e.ev \in {"format", "reformat"} ->
        IF e.parse # "nil" \/ e.fres # "nil" THEN NAv
        ELSE IF e.idem THEN OKv
        ELSE IF FmtDev(c.tokens) # "" THEN Known(FmtDev(c.tokens), "Format is not idempotent")
        ELSE Bad("Format(Format(x)) differs from Format(x) (" \o e.layout \o " layout)")
    [] OTHER -> NAv

\* C13: what the reference validator (Gen_Inject!Violated) rejects must be rejected by
\* ReadFile or Generate; what it accepts must be accepted; never a crash or a hang
C13Dev(x) ==
  IF x.class = "reference to an undefined type" /\ "skipcheck:union_branch_types" \in Devs
     /\ (x.where = "branch" \/ x.site \in {"union branch struct field", "union branch message field", "array element in union branch struct"})
  THEN "skipcheck:union_branch_types"
  ELSE IF x.class = "message index zero" /\ "skipcheck:index_zero" \in Devs THEN "skipcheck:index_zero"
  ELSE IF x.class = "const literal not assignable to its type" /\ "skipcheck:const_range" \in Devs
          /\ x.site \in {"uint8 = 256", "uint32 = -1", "int16 = 40000"} THEN "skipcheck:const_range"
  ELSE IF x.class = "duplicate definition name" /\ "skipcheck:union_inner_duplicate" \in Devs
          /\ (x.where = "branch" \/ x.site \in {"union branch/top level", "union branch/union branch"}) THEN "skipcheck:union_inner_duplicate"
  ELSE IF x.class = "definition named like a primitive" /\ "skipcheck:union_inner_duplicate" \in Devs
          /\ x.site = "union branch" THEN "skipcheck:union_inner_duplicate"
  ELSE IF x.class = "duplicate field name" /\ "skipcheck:union_branch_field_names" \in Devs
          /\ (x.where = "branch" \/ x.site \in {"union branch struct", "union branch message"}) THEN "skipcheck:union_branch_field_names"
  ELSE ""

JudgeC13(e) ==
  LET c == Cases[e.cid]  x == c.extra IN
  CASE e.ev = "inject" ->
        IF e.crash # "" THEN Bad("validation does not terminate normally (" \o e.crash \o ") on: " \o x.class \o " / " \o x.site)
        ELSE IF x.expect = "unspec" THEN OKv
        ELSE IF x.expect = "accept" THEN
             (IF e.accepted THEN OKv
              ELSE Bad("a valid schema is rejected" \o (IF c.part = "graph" THEN " (recursion that can terminate)" ELSE "")))
        ELSE IF ~e.accepted THEN OKv
        ELSE IF C13Dev(x) # "" THEN Known(C13Dev(x), "accepted although: " \o x.class \o " (" \o x.site \o ")")
        ELSE Bad("accepted although: " \o x.class \o (IF c.part = "graph" THEN "" ELSE " (" \o x.site \o ")"))
    [] OTHER -> NAv

Judge(e) == CASE Prop = "C11" -> JudgeC11(e)
              [] Prop = "C13" -> JudgeC13(e)
              [] Prop = "C16" -> JudgeC16(e)
              [] Prop = "C17" -> JudgeC17(e)
              [] OTHER -> NAv

Init == l = 1 /\ nOK = 0 /\ nKnown = 0 /\ nViol = 0 /\ nNA = 0
Step ==
  /\ l <= Len(Trace)
  /\ LET e == Trace[l]  j == Judge(e) IN
     /\ l' = l + 1
     /\ nOK'    = nOK    + (IF j.v = "OK" THEN 1 ELSE 0)
     /\ nNA'    = nNA    + (IF j.v = "NA" THEN 1 ELSE 0)
     /\ nKnown' = nKnown + (IF j.v = "KNOWN" THEN 1 ELSE 0)
     /\ nViol'  = nViol  + (IF j.v = "VIOLATION" THEN 1 ELSE 0)
     /\ (j.v \in {"KNOWN", "VIOLATION"}) =>
           PrintT("@@V " \o ToJson([l |-> l, cid |-> e.cid, verdict |-> j.v, why |-> j.why, dev |-> j.dev]))
Spec == Init /\ [][Step]_vars
TraceAccepted == TLCGet("stats").diameter - 1 = Len(Trace)
Done == l = Len(Trace) + 1 =>
          PrintT("@@COUNTS " \o ToJson([ok |-> nOK, na |-> nNA, known |-> nKnown, viol |-> nViol]))
=============================================================================
