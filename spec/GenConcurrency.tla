--------------------------- MODULE GenConcurrency ---------------------------
(***************************************************************************)
(* C14: Generate is called concurrently on one File value.  Generate takes  *)
(* the File by value - a copy of the slice HEADERS - and appends the          *)
(* definitions of imported files to its slices.  Go's append writes into the  *)
(* shared backing array when the slice has spare capacity.                    *)
(*                                                                         *)
(* Model: one backing array of Cap cells of which the caller's slice shows   *)
(* the first Len; G goroutines each hold a copy of the header and append K    *)
(* elements; no synchronisation happens between them after the fork.  A cell  *)
(* accessed by two goroutines, at least one of them writing, is a data race   *)
(* (there is no happens-before edge).                                         *)
(*                                                                         *)
(*   Mode "append" : s = append(s, x)                (the pinned Generate)    *)
(*   Mode "clip"   : s = s[:len(s):len(s)] first     (copy-on-append)         *)
(*                                                                         *)
(* TLC explores every interleaving: NoRace and CallerUnchanged hold for       *)
(* "clip" with any spare capacity, and fail for "append" exactly when there   *)
(* is spare capacity and something to append.                                 *)
(***************************************************************************)
EXTENDS Integers, Sequences, FiniteSets, TLC

CONSTANTS G,       \* number of goroutines
          K,       \* appends per goroutine
          Len0,    \* length of the caller's slice
          Spare,   \* spare capacity of the caller's slice
          Mode     \* "append" | "clip"

Gor == 1..G
Cap0 == Len0 + Spare

VARIABLES hdr,      \* goroutine -> [arr, len, cap]; arr 0 is the caller's backing array, arr g a private copy
          done,     \* goroutine -> appends performed
          writes,   \* set of <<goroutine, cell>> written in the SHARED array
          reads,    \* set of <<goroutine, cell>> read from the SHARED array
          shared    \* the caller's backing array: cell -> value (0 = never written by a callee)
vars == <<hdr, done, writes, reads, shared>>

Init == /\ hdr = [g \in Gor |-> [arr |-> 0, len |-> Len0, cap |-> IF Mode = "clip" THEN Len0 ELSE Cap0]]
        /\ done = [g \in Gor |-> 0]
        /\ writes = {} /\ reads = {}
        /\ shared = [c \in 1..Cap0 |-> 0]

GoAppend(g) ==
  /\ done[g] < K
  /\ done' = [done EXCEPT ![g] = @ + 1]
  /\ IF hdr[g].len < hdr[g].cap
     THEN \* room left: the element is stored in place
          /\ hdr' = [hdr EXCEPT ![g].len = @ + 1]
          /\ IF hdr[g].arr = 0
             THEN /\ writes' = writes \cup {<<g, hdr[g].len + 1>>}
                  /\ shared' = [shared EXCEPT ![hdr[g].len + 1] = g]
                  /\ UNCHANGED reads
             ELSE UNCHANGED <<writes, reads, shared>>
     ELSE \* full: a new private array is allocated and the old elements are copied (read)
          /\ hdr' = [hdr EXCEPT ![g] = [arr |-> g, len |-> hdr[g].len + 1, cap |-> 2 * hdr[g].len + 1]]
          /\ IF hdr[g].arr = 0
             THEN reads' = reads \cup {<<g, c>> : c \in 1..hdr[g].len}
             ELSE UNCHANGED reads
          /\ UNCHANGED <<writes, shared>>

Next == \E g \in Gor : GoAppend(g)
Spec == Init /\ [][Next]_vars /\ WF_vars(Next)

\* no cell of the shared array is written by one goroutine and touched by another
NoRace == \A w \in writes : \A a \in (writes \cup reads) : (a[2] = w[2]) => (a[1] = w[1])
\* nothing the caller can reach through its own File value (also behind len, up to cap) changes
CallerUnchanged == \A c \in 1..Cap0 : shared[c] = 0
Terminates == <>(\A g \in Gor : done[g] = K)
=============================================================================
