----------------------------- MODULE Gen_Inject -----------------------------
(***************************************************************************)
(* C13: semantic errors must be rejected.  A valid base schema, and for     *)
(* every error class of the property ONE injected error at EVERY applicable  *)
(* site; plus the recursion analysis on every struct graph of up to MaxN     *)
(* nodes with each edge kind.  The specification's own reference validator   *)
(* (WellFormed below) states the rules; TLC checks that the base is          *)
(* well-formed and every injected schema is not, so the expectation exported *)
(* with each case is the specification's verdict, not a hand-written label.  *)
(***************************************************************************)
EXTENDS BebopSchema, Json

CONSTANTS Tier, Seed,
          Parts   \* the parts to enumerate: a subset of {"base", "inject", "sites", "graph", "names"}

VARIABLES part, ci
vars == <<part, ci>>

NoOp == <<0, 0, 0, 0>>
F(name, t) == [name |-> name, t |-> t, idx |-> 0, dep |-> "", doc |-> NoDoc, tags |-> <<>>, trail |-> ""]
FI(idx, name, t) == [name |-> name, t |-> t, idx |-> idx, dep |-> "", doc |-> NoDoc, tags |-> <<>>, trail |-> ""]
St(name, fields) == [k |-> "struct", name |-> name, ro |-> FALSE, op |-> "", opval |-> NoOp, doc |-> NoDoc, asp |-> "post", fields |-> fields]
StOp(name, op, opval, fields) == [St(name, fields) EXCEPT !.op = op, !.opval = opval]
Ms(name, fields) == [k |-> "message", name |-> name, op |-> "", opval |-> NoOp, doc |-> NoDoc, asp |-> "post", fields |-> fields]
MsOp(name, op, opval, fields) == [Ms(name, fields) EXCEPT !.op = op, !.opval = opval]
Br(idx, def) == [idx |-> idx, dep |-> "", doc |-> NoDoc, def |-> def]
Un(name, branches) == [k |-> "union", name |-> name, op |-> "", opval |-> NoOp, doc |-> NoDoc, branches |-> branches]
Mem(name, lit, val) == [name |-> name, lit |-> <<lit>>, val |-> val, dep |-> "", doc |-> NoDoc]
En(name, base, members) == [k |-> "enum", name |-> name, base |-> base, flags |-> FALSE, doc |-> NoDoc, members |-> members]
Co(t, name, lit) == [k |-> "const", t |-> t, name |-> name, lit |-> lit, doc |-> NoDoc]

-----------------------------------------------------------------------------
(* The reference validator: the rules of C13 over the abstract syntax.       *)
PrimNames == {"bool","byte","uint8","uint16","int16","uint32","int32","uint64","int64","float32","float64","string","guid","date"}

RECURSIVE InnerDefs(_)
InnerDefs(items) ==   \* every record/enum definition incl. those inline in unions
  FlattenSeq([i \in 1..Len(items) |->
     IF items[i].k = "union" THEN <<items[i]>> \o [j \in 1..Len(items[i].branches) |-> items[i].branches[j].def]
     ELSE IF items[i].k \in {"struct", "message", "enum"} THEN <<items[i]>> ELSE <<>>])
DefNames(items) == [i \in 1..Len(InnerDefs(items)) |-> InnerDefs(items)[i].name]
NoDup(s) == \A i, j \in 1..Len(s) : i # j => s[i] # s[j]

RECURSIVE TypeDefined(_, _)
TypeDefined(t, names) ==
  CASE t.k = "p" -> TRUE
    [] t.k = "r" -> t.n \in names
    [] t.k = "a" -> TypeDefined(t.e, names)
    [] t.k = "m" -> t.key \in PrimNames /\ TypeDefined(t.v, names)

FieldsOf(d) == IF d.k \in {"struct", "message"} THEN d.fields ELSE <<>>

\* struct A necessarily contains struct B: a field of A has type B directly (not via message/union/array/map)
DirectStructRefs(d) == {d.fields[i].t.n : i \in {j \in 1..Len(d.fields) : d.fields[j].t.k = "r"}}
StructDefs(items) == SelectSeq(InnerDefs(items), LAMBDA d : d.k = "struct")
RECURSIVE Reach(_, _, _)
Reach(structs, from, n) ==   \* struct names reachable from the set `from` in at most n more steps
  IF n = 0 THEN from
  ELSE LET next == UNION {DirectStructRefs(structs[i]) : i \in {j \in 1..Len(structs) : structs[j].name \in from}}
                   \cap {structs[i].name : i \in 1..Len(structs)}
       IN Reach(structs, from \cup next, n - 1)
SelfContaining(items) ==
  LET ss == StructDefs(items) IN
  \E i \in 1..Len(ss) :
     LET first == DirectStructRefs(ss[i]) \cap {ss[j].name : j \in 1..Len(ss)} IN
     ss[i].name \in Reach(ss, first, Len(ss))

Widths == [byte |-> 1, uint8 |-> 1, uint16 |-> 2, int16 |-> 2, uint32 |-> 4, int32 |-> 4, uint64 |-> 8, int64 |-> 8]

\* which rule of C13 the schema violates ("" if none).  inrange/assignable are carried by the
\* AST (members carry `bad`, consts carry `bad`) because literal arithmetic is Literals.tla's business.
Violated(items) ==
  LET defs == InnerDefs(items)
      names == {defs[i].name : i \in 1..Len(defs)}
      consts == SelectSeq(items, LAMBDA d : d.k = "const")
      ops == SelectSeq(defs, LAMBDA d : d.k # "enum" /\ d.op # "")
  IN
  IF ~NoDup(DefNames(items)) THEN "duplicate definition name"
  ELSE IF ~NoDup([i \in 1..Len(consts) |-> consts[i].name]) THEN "duplicate const name"
  ELSE IF \E i \in 1..Len(defs) : defs[i].name \in PrimNames THEN "definition named like a primitive"
  ELSE IF \E i \in 1..Len(defs) : defs[i].k \in {"struct", "message"} /\
             ~NoDup([j \in 1..Len(defs[i].fields) |-> defs[i].fields[j].name]) THEN "duplicate field name"
  ELSE IF \E i \in 1..Len(defs) : defs[i].k = "message" /\
             ~NoDup([j \in 1..Len(defs[i].fields) |-> defs[i].fields[j].idx]) THEN "duplicate message index"
  ELSE IF \E i \in 1..Len(defs) : defs[i].k = "message" /\
             \E j \in 1..Len(defs[i].fields) : defs[i].fields[j].idx = 0 THEN "message index zero"
  ELSE IF \E i \in 1..Len(defs) : defs[i].k = "union" /\
             ~NoDup([j \in 1..Len(defs[i].branches) |-> defs[i].branches[j].idx]) THEN "duplicate union index"
  ELSE IF \E i \in 1..Len(defs) : defs[i].k = "enum" /\
             ~NoDup([j \in 1..Len(defs[i].members) |-> defs[i].members[j].name]) THEN "duplicate enum option name"
  ELSE IF \E i \in 1..Len(defs) : defs[i].k = "enum" /\
             ~NoDup([j \in 1..Len(defs[i].members) |-> defs[i].members[j].val]) THEN "duplicate enum value"
  ELSE IF \E i \in 1..Len(defs) : defs[i].k = "enum" /\
             \E j \in 1..Len(defs[i].members) : Len(defs[i].members[j].val) # Widths[IF defs[i].base = "" THEN "uint32" ELSE defs[i].base]
       THEN "enum value outside its base type"
  ELSE IF ~NoDup([i \in 1..Len(ops) |-> ops[i].opval]) THEN "duplicate opcode"
  ELSE IF \E i \in 1..Len(consts) : "bad" \in DOMAIN consts[i] THEN "const literal not assignable to its type"
  ELSE IF \E i \in 1..Len(defs) : \E j \in 1..Len(FieldsOf(defs[i])) : ~TypeDefined(FieldsOf(defs[i])[j].t, names)
       THEN "reference to an undefined type"
  ELSE IF SelfContaining(items) THEN "struct necessarily contains itself"
  ELSE ""

-----------------------------------------------------------------------------
(* The valid base schema *)
ColorE == En("Color", "", << Mem("Red", "1", <<1,0,0,0>>), Mem("Green", "2", <<2,0,0,0>>) >>)
SmallE == En("Small", "uint8", << Mem("Lo", "0", <<0>>), Mem("Hi", "255", <<255>>) >>)
PointS == St("Point", << F("x", P("int32")), F("y", P("int32")) >>)
MsgM   == Ms("Msg", << FI(1, "p", R("Point")), FI(2, "names", A(P("string"))), FI(3, "m", M("string", R("Color"))) >>)
UU     == Un("U", << Br(1, St("UA", << F("p", R("Point")) >>)), Br(2, Ms("UB", << FI(1, "c", R("Color")) >>)) >>)
HolderS == St("Holder", << F("m", R("Msg")), F("u", R("U")), F("ps", A(R("Point"))), F("mm", M("uint32", A(R("Point")))) >>)
Op1S   == StOp("Op1", "1", <<1,0,0,0>>, << F("b", P("bool")) >>)
Op2M   == MsOp("Op2", "\"ABCD\"", <<65,66,67,68>>, << FI(1, "b", P("bool")) >>)
C1     == Co("int32", "c1", "5")
C2     == Co("string", "c2", "\"x\"")
Base   == << ColorE, SmallE, PointS, MsgM, UU, HolderS, Op1S, Op2M, C1, C2 >>
\* positions in Base
iColor == 1  iSmall == 2  iPoint == 3  iMsg == 4  iU == 5  iHolder == 6  iOp1 == 7  iOp2 == 8  iC1 == 9  iC2 == 10

Nope == R("Nope")
SetFieldT(d, j, t) == [d EXCEPT !.fields = [d.fields EXCEPT ![j] = [d.fields[j] EXCEPT !.t = t]]]
SetFieldName(d, j, n) == [d EXCEPT !.fields = [d.fields EXCEPT ![j] = [d.fields[j] EXCEPT !.name = n]]]
SetFieldIdx(d, j, i) == [d EXCEPT !.fields = [d.fields EXCEPT ![j] = [d.fields[j] EXCEPT !.idx = i]]]
SetBranchDef(u, j, d) == [u EXCEPT !.branches = [u.branches EXCEPT ![j] = [u.branches[j] EXCEPT !.def = d]]]
With(i, d) == [Base EXCEPT ![i] = d]
BadMem(name, lit, val) == Mem(name, lit, val)
BadConst(t, name, lit) == [k |-> "const", t |-> t, name |-> name, lit |-> lit, doc |-> NoDoc, bad |-> TRUE]

Inj(class, site, items) == [class |-> class, site |-> site, items |-> items]

HandInjections == <<
  \* 1. undefined types, at every kind of site
  Inj("reference to an undefined type", "struct field", With(iPoint, SetFieldT(PointS, 1, Nope))),
  Inj("reference to an undefined type", "message field", With(iMsg, SetFieldT(MsgM, 1, Nope))),
  Inj("reference to an undefined type", "array element in struct", With(iHolder, SetFieldT(HolderS, 3, A(Nope)))),
  Inj("reference to an undefined type", "array element in message", With(iMsg, SetFieldT(MsgM, 2, A(Nope)))),
  Inj("reference to an undefined type", "map value in message", With(iMsg, SetFieldT(MsgM, 3, M("string", Nope)))),
  Inj("reference to an undefined type", "array in map value in struct", With(iHolder, SetFieldT(HolderS, 4, M("uint32", A(Nope))))),
  Inj("reference to an undefined type", "union branch struct field", With(iU, SetBranchDef(UU, 1, St("UA", << F("p", Nope) >>)))),
  Inj("reference to an undefined type", "union branch message field", With(iU, SetBranchDef(UU, 2, Ms("UB", << FI(1, "c", Nope) >>)))),
  Inj("reference to an undefined type", "array element in union branch struct", With(iU, SetBranchDef(UU, 1, St("UA", << F("p", A(Nope)) >>)))),
  \* 2. duplicate definition names
  Inj("duplicate definition name", "struct/struct", Base \o << St("Point", << F("z", P("bool")) >>) >>),
  Inj("duplicate definition name", "struct/message", Base \o << Ms("Point", << FI(1, "z", P("bool")) >>) >>),
  Inj("duplicate definition name", "enum/struct", Base \o << St("Color", << F("z", P("bool")) >>) >>),
  Inj("duplicate definition name", "enum/enum", Base \o << En("Color", "", << Mem("Q", "1", <<1,0,0,0>>) >>) >>),
  Inj("duplicate definition name", "message/union", Base \o << Un("Msg", << Br(1, St("MX", << F("z", P("bool")) >>)) >>) >>),
  Inj("duplicate definition name", "union/struct", Base \o << St("U", << F("z", P("bool")) >>) >>),
  Inj("duplicate definition name", "union branch/top level", Base \o << St("UA", << F("z", P("bool")) >>) >>),
  Inj("duplicate definition name", "union branch/union branch",
      Base \o << Un("V", << Br(1, St("UA", << F("z", P("bool")) >>)) >>) >>),
  Inj("duplicate const name", "const/const", Base \o << Co("int32", "c1", "6") >>),
  \* 3. duplicate field names
  Inj("duplicate field name", "struct", With(iPoint, SetFieldName(PointS, 2, "x"))),
  Inj("duplicate field name", "message", With(iMsg, SetFieldName(MsgM, 3, "p"))),
  Inj("duplicate field name", "union branch struct", With(iU, SetBranchDef(UU, 1, St("UA", << F("p", R("Point")), F("p", P("bool")) >>)))),
  Inj("duplicate field name", "union branch message", With(iU, SetBranchDef(UU, 2, Ms("UB", << FI(1, "c", R("Color")), FI(2, "c", P("bool")) >>)))),
  \* 4. enum options
  Inj("duplicate enum option name", "enum", With(iColor, En("Color", "", << Mem("Red", "1", <<1,0,0,0>>), Mem("Red", "2", <<2,0,0,0>>) >>))),
  Inj("duplicate enum value", "enum", With(iColor, En("Color", "", << Mem("Red", "1", <<1,0,0,0>>), Mem("Green", "1", <<1,0,0,0>>) >>))),
  Inj("duplicate enum value", "typed enum, hex and decimal", With(iSmall, En("Small", "uint8", << Mem("Lo", "16", <<16>>), Mem("Hi", "0x10", <<16>>) >>))),
  \* 5. indices
  Inj("duplicate message index", "message", With(iMsg, SetFieldIdx(MsgM, 3, 1))),
  Inj("duplicate message index", "union branch message", With(iU, SetBranchDef(UU, 2, Ms("UB", << FI(1, "c", R("Color")), FI(1, "d", P("bool")) >>)))),
  Inj("duplicate union index", "union", With(iU, [UU EXCEPT !.branches = << Br(1, St("UA", << F("p", R("Point")) >>)), Br(1, Ms("UB", << FI(1, "c", R("Color")) >>)) >>])),
  Inj("message index zero", "message", With(iMsg, SetFieldIdx(MsgM, 1, 0))),
  Inj("message index zero", "union branch message", With(iU, SetBranchDef(UU, 2, Ms("UB", << FI(0, "c", R("Color")) >>)))),
  \* 6. opcodes
  Inj("duplicate opcode", "struct/struct", Base \o << StOp("Op3", "1", <<1,0,0,0>>, << F("b", P("bool")) >>) >>),
  Inj("duplicate opcode", "struct/message", Base \o << MsOp("Op3", "0x1", <<1,0,0,0>>, << FI(1, "b", P("bool")) >>) >>),
  Inj("duplicate opcode", "message/union, string and number",
      Base \o << [Un("Op3", << Br(1, St("O3A", << F("b", P("bool")) >>)) >>) EXCEPT !.op = "0x44434241", !.opval = <<65,66,67,68>>] >>),
  \* 7. enum values outside the base type (val carries more bytes than the base is wide)
  Inj("enum value outside its base type", "uint8 = 256", With(iSmall, En("Small", "uint8", << Mem("Lo", "0", <<0>>), BadMem("Hi", "256", <<0,1>>) >>))),
  Inj("enum value outside its base type", "uint8 = -1", With(iSmall, En("Small", "uint8", << Mem("Lo", "0", <<0>>), BadMem("Hi", "-1", <<255,255>>) >>))),
  Inj("enum value outside its base type", "int16 = 40000", With(iSmall, En("Small", "int16", << Mem("Lo", "0", <<0,0>>), BadMem("Hi", "40000", <<64,156,0>>) >>))),
  Inj("enum value outside its base type", "default base = 4294967296", With(iColor, En("Color", "", << Mem("Red", "1", <<1,0,0,0>>), BadMem("Green", "4294967296", <<0,0,0,0,1>>) >>))),
  \* ... written in hexadecimal: a bit pattern as wide as the type is a number beyond a signed type's maximum
  Inj("enum value outside its base type", "int16 = 0x12345", With(iSmall, En("Small", "int16", << Mem("Lo", "0", <<0,0>>), BadMem("Hi", "0x12345", <<69,35,1>>) >>))),
  Inj("enum value outside its base type", "int16 = 0xFFFF", With(iSmall, En("Small", "int16", << Mem("Lo", "0", <<0,0>>), BadMem("Hi", "0xFFFF", <<255,255,0>>) >>))),
  Inj("enum value outside its base type", "int16 = -0x8001", With(iSmall, En("Small", "int16", << Mem("Lo", "0", <<0,0>>), BadMem("Hi", "-0x8001", <<255,127,255>>) >>))),
  Inj("enum value outside its base type", "int32 = 0x1FFFFFFFF", With(iSmall, En("Small", "int32", << Mem("Lo", "0", <<0,0,0,0>>), BadMem("Hi", "0x1FFFFFFFF", <<255,255,255,255,1>>) >>))),
  Inj("enum value outside its base type", "int32 = 0xFFFFFFFF", With(iSmall, En("Small", "int32", << Mem("Lo", "0", <<0,0,0,0>>), BadMem("Hi", "0xFFFFFFFF", <<255,255,255,255,0>>) >>))),
  Inj("enum value outside its base type", "int64 = 0xFFFFFFFFFFFFFFFF", With(iSmall, En("Small", "int64", << Mem("Lo", "0", <<0,0,0,0,0,0,0,0>>), BadMem("Hi", "0xFFFFFFFFFFFFFFFF", <<255,255,255,255,255,255,255,255,0>>) >>))),
  Inj("enum value outside its base type", "uint8 = 0x100", With(iSmall, En("Small", "uint8", << Mem("Lo", "0", <<0>>), BadMem("Hi", "0x100", <<0,1>>) >>))),
  Inj("enum value outside its base type", "uint16 = 0x10000", With(iSmall, En("Small", "uint16", << Mem("Lo", "0", <<0,0>>), BadMem("Hi", "0x10000", <<0,0,1>>) >>))),
  Inj("enum value outside its base type", "uint64 = -1", With(iSmall, En("Small", "uint64", << Mem("Lo", "0", <<0,0,0,0,0,0,0,0>>), BadMem("Hi", "-1", <<255,255,255,255,255,255,255,255,255>>) >>))),
  \* 8. consts
  Inj("const literal not assignable to its type", "int32 = string", With(iC1, BadConst("int32", "c1", "\"five\""))),
  Inj("const literal not assignable to its type", "string = integer", With(iC2, BadConst("string", "c2", "5"))),
  Inj("const literal not assignable to its type", "bool = integer", With(iC1, BadConst("bool", "c1", "1"))),
  Inj("const literal not assignable to its type", "int32 = float", With(iC1, BadConst("int32", "c1", "3.5"))),
  Inj("const literal not assignable to its type", "uint8 = 256", With(iC1, BadConst("uint8", "c1", "256"))),
  Inj("const literal not assignable to its type", "uint32 = -1", With(iC1, BadConst("uint32", "c1", "-1"))),
  Inj("const literal not assignable to its type", "int16 = 40000", With(iC1, BadConst("int16", "c1", "40000"))),
  Inj("const literal not assignable to its type", "guid of wrong length", With(iC2, BadConst("guid", "c2", "\"0123\""))),
  Inj("const literal not assignable to its type", "float32 = string", With(iC2, BadConst("float32", "c2", "\"x\""))),
  Inj("const literal not assignable to its type", "guid: 28 hex digits in 32 characters", With(iC2, BadConst("guid", "c2", "\"e2722bf7-022a-496a-9f01-7029d7d5\""))),
  Inj("const literal not assignable to its type", "guid: 36 hex digits without hyphens", With(iC2, BadConst("guid", "c2", "\"e2722bf7022a496a9f017029d7d5563dabcd\""))),
  Inj("const literal not assignable to its type", "guid: 31 hex digits", With(iC2, BadConst("guid", "c2", "\"e2722bf7022a496a9f017029d7d5563\""))),
  Inj("const literal not assignable to its type", "guid: 33 hex digits hyphenated", With(iC2, BadConst("guid", "c2", "\"e2722bf7-022a-496a-9f01-7029d7d5563da\""))),
  Inj("const literal not assignable to its type", "guid = integer", With(iC2, BadConst("guid", "c2", "7"))),
  Inj("const literal not assignable to its type", "bool = string", With(iC1, BadConst("bool", "c1", "\"true\""))),
  Inj("const literal not assignable to its type", "string = bool", With(iC2, BadConst("string", "c2", "true"))),
  Inj("const literal not assignable to its type", "int64 = inf", With(iC1, BadConst("int64", "c1", "inf"))),
  Inj("const literal not assignable to its type", "float64 = bool", With(iC1, BadConst("float64", "c1", "false"))),
  Inj("const literal not assignable to its type", "uint16 = nan", With(iC1, BadConst("uint16", "c1", "nan"))),
  Inj("const literal not assignable to its type", "const of a record type", With(iC1, BadConst("Point", "c1", "1"))),
  \* 9. names of primitives
  Inj("definition named like a primitive", "struct", Base \o << St("int32", << F("z", P("bool")) >>) >>),
  Inj("definition named like a primitive", "message", Base \o << Ms("guid", << FI(1, "z", P("bool")) >>) >>),
  Inj("definition named like a primitive", "enum", Base \o << En("string", "", << Mem("Q", "1", <<1,0,0,0>>) >>) >>),
  Inj("definition named like a primitive", "union", Base \o << Un("bool", << Br(1, St("BX", << F("z", P("bool")) >>)) >>) >>),
  Inj("definition named like a primitive", "union branch", Base \o << Un("W", << Br(1, St("date", << F("z", P("bool")) >>)) >>) >>)
>>

\* every primitive type name as the name of every kind of top-level definition
PrimSeq == <<"bool","byte","uint8","uint16","int16","uint32","int32","uint64","int64","float32","float64","string","guid","date">>
PrimNameInjs == FlattenSeq([i \in 1..Len(PrimSeq) |-> <<
  Inj("definition named like a primitive", "struct named " \o PrimSeq[i], Base \o << St(PrimSeq[i], << F("z", P("bool")) >>) >>),
  Inj("definition named like a primitive", "message named " \o PrimSeq[i], Base \o << Ms(PrimSeq[i], << FI(1, "z", P("bool")) >>) >>),
  Inj("definition named like a primitive", "enum named " \o PrimSeq[i], Base \o << En(PrimSeq[i], "", << Mem("Q", "1", <<1,0,0,0>>) >>) >>),
  Inj("definition named like a primitive", "union named " \o PrimSeq[i], Base \o << Un(PrimSeq[i], << Br(1, St("BX", << F("z", P("bool")) >>)) >>) >>) >>])
Injections == HandInjections \o PrimNameInjs

-----------------------------------------------------------------------------
(* "At every applicable site": the site-dependent classes are injected       *)
(* mechanically at EVERY field of EVERY record of a base that also has       *)
(* fields at the boundary indices (128, 254, 255), top level and inline in   *)
(* union branches, under each type wrapper.                                  *)
EdgeM == Ms("Edge", << FI(1, "a", P("bool")), FI(128, "b", R("Point")), FI(254, "c", A(R("Color"))), FI(255, "d", M("string", R("Point"))) >>)
EdgeU == Un("EdgeU", << Br(1, St("EA", << F("p", R("Point")), F("q", P("bool")) >>)), Br(255, Ms("EB", << FI(7, "r", P("bool")), FI(255, "q", R("Color")) >>)) >>)
Base2 == Base \o << EdgeM, EdgeU >>
Wrap(w, t) == CASE w = 1 -> t [] w = 2 -> A(t) [] w = 3 -> M("string", t) [] w = 4 -> A(M("guid", A(t)))
WrapName == << "plain", "array element", "map value", "array of map of array" >>
With2(i, d) == [Base2 EXCEPT ![i] = d]
IsRec(d) == d.k \in {"struct", "message"}
FieldSite(d, j) == d.k \o " " \o d.name \o " field " \o d.fields[j].name \o (IF d.k = "message" THEN " (index " \o ToString(d.fields[j].idx) \o ")" ELSE "")
SInj(class, site, where, items) == [class |-> class, site |-> site, where |-> where, items |-> items]
\* apply f to record d sitting at top level position i, or inline in branch b of the union at position i
TopSites == SelectSeq([i \in 1..Len(Base2) |-> i], LAMBDA i : IsRec(Base2[i]))
BranchSites == FlattenSeq([i \in 1..Len(Base2) |-> IF Base2[i].k = "union" THEN [b \in 1..Len(Base2[i].branches) |-> <<i, b>>] ELSE <<>>])
RecAt(site) == IF Len(site) = 1 THEN Base2[site[1]] ELSE Base2[site[1]].branches[site[2]].def
PutAt(site, d) == IF Len(site) = 1 THEN With2(site[1], d) ELSE With2(site[1], SetBranchDef(Base2[site[1]], site[2], d))
AllRecSites == [i \in 1..Len(TopSites) |-> << TopSites[i] >>] \o BranchSites
WhereOf(site) == IF Len(site) = 1 THEN "top" ELSE "branch"
SiteInjections ==
  FlattenSeq([s \in 1..Len(AllRecSites) |->
    LET site == AllRecSites[s]  d == RecAt(site)  n == Len(d.fields) IN
      \* an undefined type at every field under every wrapper
      FlattenSeq([j \in 1..n |-> [w \in 1..4 |->
          SInj("reference to an undefined type", WrapName[w] \o " at " \o FieldSite(d, j), WhereOf(site), PutAt(site, SetFieldT(d, j, Wrap(w, Nope))))]])
      \* every later field renamed like every earlier one
      \o FlattenSeq([jj \in 1..(n-1) |-> LET j == jj + 1 IN [i \in 1..(j-1) |->
          SInj("duplicate field name", FieldSite(d, j) \o " renamed like field " \o ToString(i), WhereOf(site), PutAt(site, SetFieldName(d, j, d.fields[i].name)))]])
      \o (IF d.k # "message" THEN <<>> ELSE
          \* every later message field re-indexed like every earlier one; every field at index zero
          FlattenSeq([jj \in 1..(n-1) |-> LET j == jj + 1 IN [i \in 1..(j-1) |->
              SInj("duplicate message index", FieldSite(d, j) \o " re-indexed like field " \o ToString(i), WhereOf(site), PutAt(site, SetFieldIdx(d, j, d.fields[i].idx)))]])
          \o [j \in 1..n |-> SInj("message index zero", FieldSite(d, j), WhereOf(site), PutAt(site, SetFieldIdx(d, j, 0)))])])
  \* every later union branch re-indexed like every earlier one
  \o FlattenSeq([i \in 1..Len(Base2) |-> IF Base2[i].k # "union" THEN <<>> ELSE
        FlattenSeq([bb \in 1..(Len(Base2[i].branches)-1) |-> LET b == bb + 1 IN [a \in 1..(b-1) |->
            SInj("duplicate union index", "union " \o Base2[i].name \o " branch " \o ToString(b) \o " re-indexed like branch " \o ToString(a), "top",
                 With2(i, [Base2[i] EXCEPT !.branches[b].idx = Base2[i].branches[a].idx]))]])])

-----------------------------------------------------------------------------
(* Recursion: struct graphs.  Node i is struct Ni; an edge i->j is a field    *)
(* of Ni whose type reaches Nj by the edge kind.                              *)
MaxN == IF Tier = "thorough" THEN 3 ELSE 3
EdgeKinds == <<"direct", "message", "union", "array", "map">>
NodeName(i) == "N" \o ToString(i)
EdgeBit(g, n, i, j) == (g \div (2 ^ ((i - 1) * n + (j - 1)))) % 2 = 1
EdgeItems(kind, i, j) ==   \* supporting definitions of the edge, and the field type
  LET nm == NodeName(i) \o NodeName(j) IN
  CASE kind = "direct"  -> [t |-> R(NodeName(j)), sup |-> <<>>]
    [] kind = "array"   -> [t |-> A(R(NodeName(j))), sup |-> <<>>]
    [] kind = "map"     -> [t |-> M("string", R(NodeName(j))), sup |-> <<>>]
    [] kind = "message" -> [t |-> R("M" \o nm), sup |-> << Ms("M" \o nm, << FI(1, "x", R(NodeName(j))) >>) >>]
    [] kind = "union"   -> [t |-> R("U" \o nm), sup |-> << Un("U" \o nm, << Br(1, St("B" \o nm, << F("x", R(NodeName(j))) >>)) >>) >>]
GraphItems(n, g, kind) ==
  LET edges(i) == SelectSeq([j \in 1..n |-> j], LAMBDA j : EdgeBit(g, n, i, j))
      node(i) == St(NodeName(i), << F("v", P("int32")) >> \o [e \in 1..Len(edges(i)) |-> F("e" \o ToString(edges(i)[e]), EdgeItems(kind, i, edges(i)[e]).t)])
  IN [i \in 1..n |-> node(i)]
     \o FlattenSeq([i \in 1..n |-> FlattenSeq([e \in 1..Len(edges(i)) |-> EdgeItems(kind, i, edges(i)[e]).sup])])
NGraphs(n) == 2 ^ (n * n)
\* graph cases: n = 1..MaxN, every graph, every edge kind
GraphCount == SumSeq([n \in 1..MaxN |-> NGraphs(n) * Len(EdgeKinds)])
RECURSIVE GraphCase(_, _)
GraphCase(i, n) ==   \* i 0-based within the cases of size >= n
  IF i < NGraphs(n) * Len(EdgeKinds)
  THEN [n |-> n, g |-> i \div Len(EdgeKinds), kind |-> EdgeKinds[(i % Len(EdgeKinds)) + 1]]
  ELSE GraphCase(i - NGraphs(n) * Len(EdgeKinds), n + 1)

-----------------------------------------------------------------------------
(* Names: a schema is a valid schema whatever its identifiers are called     *)
(* (other than the primitive type names and the words of the language).     *)
(* Every candidate identifier is put at every kind of naming site of a      *)
(* small valid schema: C13 must accept it, C12 must compile what is         *)
(* generated from it (under the option sets, which change how names are     *)
(* exposed).  up/lo are the spellings with the first letter upper/lower     *)
(* case (strings are atoms for TLC).                                        *)
NameTable == <<
  [n |-> "point", up |-> "Point", lo |-> "point", cls |-> "plain"],
  [n |-> "x", up |-> "X", lo |-> "x", cls |-> "plain"],
  [n |-> "Point", up |-> "Point", lo |-> "point", cls |-> "plain"],
  [n |-> "X9", up |-> "X9", lo |-> "x9", cls |-> "plain"],
  [n |-> "a_b", up |-> "A_b", lo |-> "a_b", cls |-> "plain"],
  [n |-> "my_type", up |-> "My_type", lo |-> "my_type", cls |-> "plain"],
  [n |-> "camelCase", up |-> "CamelCase", lo |-> "camelCase", cls |-> "plain"],
  [n |-> "type", up |-> "Type", lo |-> "type", cls |-> "gokeyword"],
  [n |-> "func", up |-> "Func", lo |-> "func", cls |-> "gokeyword"],
  [n |-> "range", up |-> "Range", lo |-> "range", cls |-> "gokeyword"],
  [n |-> "var", up |-> "Var", lo |-> "var", cls |-> "gokeyword"],
  [n |-> "chan", up |-> "Chan", lo |-> "chan", cls |-> "gokeyword"],
  [n |-> "go", up |-> "Go", lo |-> "go", cls |-> "gokeyword"],
  [n |-> "select", up |-> "Select", lo |-> "select", cls |-> "gokeyword"],
  [n |-> "default", up |-> "Default", lo |-> "default", cls |-> "gokeyword"],
  [n |-> "interface", up |-> "Interface", lo |-> "interface", cls |-> "gokeyword"],
  [n |-> "package", up |-> "Package", lo |-> "package", cls |-> "gokeyword"],
  [n |-> "return", up |-> "Return", lo |-> "return", cls |-> "gokeyword"],
  [n |-> "switch", up |-> "Switch", lo |-> "switch", cls |-> "gokeyword"],
  [n |-> "case", up |-> "Case", lo |-> "case", cls |-> "gokeyword"],
  [n |-> "break", up |-> "Break", lo |-> "break", cls |-> "gokeyword"],
  [n |-> "continue", up |-> "Continue", lo |-> "continue", cls |-> "gokeyword"],
  [n |-> "defer", up |-> "Defer", lo |-> "defer", cls |-> "gokeyword"],
  [n |-> "else", up |-> "Else", lo |-> "else", cls |-> "gokeyword"],
  [n |-> "fallthrough", up |-> "Fallthrough", lo |-> "fallthrough", cls |-> "gokeyword"],
  [n |-> "for", up |-> "For", lo |-> "for", cls |-> "gokeyword"],
  [n |-> "goto", up |-> "Goto", lo |-> "goto", cls |-> "gokeyword"],
  [n |-> "if", up |-> "If", lo |-> "if", cls |-> "gokeyword"],
  [n |-> "error", up |-> "Error", lo |-> "error", cls |-> "predeclared"],
  [n |-> "len", up |-> "Len", lo |-> "len", cls |-> "predeclared"],
  [n |-> "int", up |-> "Int", lo |-> "int", cls |-> "predeclared"],
  [n |-> "nil", up |-> "Nil", lo |-> "nil", cls |-> "predeclared"],
  [n |-> "iota", up |-> "Iota", lo |-> "iota", cls |-> "predeclared"],
  [n |-> "make", up |-> "Make", lo |-> "make", cls |-> "predeclared"],
  [n |-> "new", up |-> "New", lo |-> "new", cls |-> "predeclared"],
  [n |-> "append", up |-> "Append", lo |-> "append", cls |-> "predeclared"],
  [n |-> "cap", up |-> "Cap", lo |-> "cap", cls |-> "predeclared"],
  [n |-> "copy", up |-> "Copy", lo |-> "copy", cls |-> "predeclared"],
  [n |-> "panic", up |-> "Panic", lo |-> "panic", cls |-> "predeclared"],
  [n |-> "any", up |-> "Any", lo |-> "any", cls |-> "predeclared"],
  [n |-> "rune", up |-> "Rune", lo |-> "rune", cls |-> "predeclared"],
  [n |-> "uintptr", up |-> "Uintptr", lo |-> "uintptr", cls |-> "predeclared"],
  [n |-> "print", up |-> "Print", lo |-> "print", cls |-> "predeclared"],
  [n |-> "close", up |-> "Close", lo |-> "close", cls |-> "predeclared"],
  [n |-> "delete", up |-> "Delete", lo |-> "delete", cls |-> "predeclared"],
  [n |-> "String", up |-> "String", lo |-> "string", cls |-> "predeclared"],
  [n |-> "Byte", up |-> "Byte", lo |-> "byte", cls |-> "predeclared"],
  [n |-> "Bool", up |-> "Bool", lo |-> "bool", cls |-> "predeclared"],
  [n |-> "Int32", up |-> "Int32", lo |-> "int32", cls |-> "predeclared"],
  [n |-> "Uint8", up |-> "Uint8", lo |-> "uint8", cls |-> "predeclared"],
  [n |-> "Float64", up |-> "Float64", lo |-> "float64", cls |-> "predeclared"],
  [n |-> "Error", up |-> "Error", lo |-> "error", cls |-> "predeclared"],
  [n |-> "Int", up |-> "Int", lo |-> "int", cls |-> "predeclared"],
  [n |-> "Len", up |-> "Len", lo |-> "len", cls |-> "predeclared"],
  [n |-> "Nil", up |-> "Nil", lo |-> "nil", cls |-> "predeclared"],
  [n |-> "Size", up |-> "Size", lo |-> "size", cls |-> "method"],
  [n |-> "MarshalBebop", up |-> "MarshalBebop", lo |-> "marshalBebop", cls |-> "method"],
  [n |-> "MarshalBebopTo", up |-> "MarshalBebopTo", lo |-> "marshalBebopTo", cls |-> "method"],
  [n |-> "UnmarshalBebop", up |-> "UnmarshalBebop", lo |-> "unmarshalBebop", cls |-> "method"],
  [n |-> "EncodeBebop", up |-> "EncodeBebop", lo |-> "encodeBebop", cls |-> "method"],
  [n |-> "DecodeBebop", up |-> "DecodeBebop", lo |-> "decodeBebop", cls |-> "method"],
  [n |-> "MustUnmarshalBebop", up |-> "MustUnmarshalBebop", lo |-> "mustUnmarshalBebop", cls |-> "method"],
  [n |-> "size", up |-> "Size", lo |-> "size", cls |-> "method"],
  [n |-> "marshalBebop", up |-> "MarshalBebop", lo |-> "marshalBebop", cls |-> "method"],
  [n |-> "marshalBebopTo", up |-> "MarshalBebopTo", lo |-> "marshalBebopTo", cls |-> "method"],
  [n |-> "unmarshalBebop", up |-> "UnmarshalBebop", lo |-> "unmarshalBebop", cls |-> "method"],
  [n |-> "encodeBebop", up |-> "EncodeBebop", lo |-> "encodeBebop", cls |-> "method"],
  [n |-> "decodeBebop", up |-> "DecodeBebop", lo |-> "decodeBebop", cls |-> "method"],
  [n |-> "mustUnmarshalBebop", up |-> "MustUnmarshalBebop", lo |-> "mustUnmarshalBebop", cls |-> "method"],
  [n |-> "iohelp", up |-> "Iohelp", lo |-> "iohelp", cls |-> "package"],
  [n |-> "io", up |-> "Io", lo |-> "io", cls |-> "package"],
  [n |-> "bebop", up |-> "Bebop", lo |-> "bebop", cls |-> "package"],
  [n |-> "time", up |-> "Time", lo |-> "time", cls |-> "package"],
  [n |-> "math", up |-> "Math", lo |-> "math", cls |-> "package"],
  [n |-> "bytes", up |-> "Bytes", lo |-> "bytes", cls |-> "package"],
  [n |-> "sync", up |-> "Sync", lo |-> "sync", cls |-> "package"],
  [n |-> "unsafe", up |-> "Unsafe", lo |-> "unsafe", cls |-> "package"],
  [n |-> "buf", up |-> "Buf", lo |-> "buf", cls |-> "local"],
  [n |-> "at", up |-> "At", lo |-> "at", cls |-> "local"],
  [n |-> "err", up |-> "Err", lo |-> "err", cls |-> "local"],
  [n |-> "r", up |-> "R", lo |-> "r", cls |-> "local"],
  [n |-> "w", up |-> "W", lo |-> "w", cls |-> "local"],
  [n |-> "bbp", up |-> "Bbp", lo |-> "bbp", cls |-> "local"],
  [n |-> "v", up |-> "V", lo |-> "v", cls |-> "local"],
  [n |-> "i", up |-> "I", lo |-> "i", cls |-> "local"],
  [n |-> "ln", up |-> "Ln", lo |-> "ln", cls |-> "local"],
  [n |-> "k", up |-> "K", lo |-> "k", cls |-> "local"],
  [n |-> "ok", up |-> "Ok", lo |-> "ok", cls |-> "local"],
  [n |-> "elem", up |-> "Elem", lo |-> "elem", cls |-> "local"],
  [n |-> "iow", up |-> "Iow", lo |-> "iow", cls |-> "local"],
  [n |-> "ior", up |-> "Ior", lo |-> "ior", cls |-> "local"],
  [n |-> "MakeH", up |-> "MakeH", lo |-> "makeH", cls |-> "derived"],
  [n |-> "MakeHFromBytes", up |-> "MakeHFromBytes", lo |-> "makeHFromBytes", cls |-> "derived"],
  [n |-> "MustMakeHFromBytes", up |-> "MustMakeHFromBytes", lo |-> "mustMakeHFromBytes", cls |-> "derived"],
  [n |-> "HOpCode", up |-> "HOpCode", lo |-> "hOpCode", cls |-> "derived"],
  [n |-> "NewH", up |-> "NewH", lo |-> "newH", cls |-> "derived"],
  [n |-> "GetA", up |-> "GetA", lo |-> "getA", cls |-> "derived"] >>
NamePositions == << "sfield", "mfield", "sname", "mname", "ename", "emember", "uname", "bname", "bfield", "cname", "rofield" >>
NHolder(n) == St("H", << F("h", R(n)), F("hs", A(R(n))), F("hm", M("string", R(n))) >>)
NameItems(pos, n) ==
  CASE pos = "sfield"  -> << St("S", << F(n, P("int32")), F("other", P("string")) >>) >>
    [] pos = "mfield"  -> << Ms("M", << FI(1, n, P("int32")), FI(2, "other", P("string")) >>) >>
    [] pos = "sname"   -> << St(n, << F("a", P("int32")) >>), NHolder(n) >>
    [] pos = "mname"   -> << Ms(n, << FI(1, "a", P("int32")) >>), NHolder(n) >>
    [] pos = "ename"   -> << En(n, "", << Mem("A", "1", <<1,0,0,0>>) >>), NHolder(n) >>
    [] pos = "emember" -> << En("E", "", << Mem(n, "1", <<1,0,0,0>>), Mem("Other", "2", <<2,0,0,0>>) >>), St("H", << F("h", R("E")) >>) >>
    [] pos = "uname"   -> << Un(n, << Br(1, St("UA", << F("a", P("int32")) >>)) >>), NHolder(n) >>
    [] pos = "bname"   -> << Un("U", << Br(1, St(n, << F("a", P("int32")) >>)), Br(2, Ms("UB", << FI(1, "b", P("int32")) >>)) >>) >>
    [] pos = "bfield"  -> << Un("U", << Br(1, St("UA", << F(n, P("int32")) >>)), Br(2, Ms("UB", << FI(1, n, P("int32")) >>)) >>) >>
    [] pos = "cname"   -> << Co("int32", n, "5"), St("S", << F("a", P("int32")) >>) >>
    [] pos = "rofield" -> << [St("S", << F(n, P("int32")), F("other", P("string")) >>) EXCEPT !.ro = TRUE] >>   \* (fields of a readonly struct are unexported and get a getter and a constructor parameter)
NNames == Len(NameTable) * Len(NamePositions)
NameCase(i) == [pos |-> NamePositions[((i - 1) % Len(NamePositions)) + 1], nm |-> NameTable[((i - 1) \div Len(NamePositions)) + 1]]

-----------------------------------------------------------------------------
(* Use of imported definitions: a file that imports another and uses each    *)
(* kind of imported definition under each type wrapper in each kind of      *)
(* record, generated in both import modes.  The go_package literals are     *)
(* placeholders the harness fills in with the import paths of its workspace. *)
ImpKinds == << "struct", "message", "enum", "union" >>
ImpDep == << Co("string", "go_package", "\"@DEPPKG@\""),
             \* (constants Go cannot write as constants: the generated file needs "math" for them)
             Co("float64", "DepInf", "inf"), Co("float32", "DepNan", "nan"), Co("float64", "DepNegInf", "-inf"), Co("int32", "DepSeven", "7"),
             St("TB", << F("v", P("int64")), F("w", P("string")), F("d", P("date")), F("g", P("guid")) >>),   \* (types that make the GENERATED imported package import Go packages)
             Ms("MB", << FI(1, "t", R("TB")), FI(2, "n", P("int32")) >>),
             En("EB", "uint16", << Mem("X", "1", <<1,0>>), Mem("Y", "2", <<2,0>>) >>),
             Un("UB", << Br(1, St("UBA", << F("a", P("int32")) >>)), Br(2, Ms("UBM", << FI(1, "s", P("string")) >>)) >>) >>
ImpTypeName(k) == CASE k = "struct" -> "TB" [] k = "message" -> "MB" [] k = "enum" -> "EB" [] k = "union" -> "UB"
ImpWrap(w, t) == CASE w = 1 -> t [] w = 2 -> A(t) [] w = 3 -> M("string", t) [] w = 4 -> A(A(t)) [] w = 5 -> M("int32", A(t))
ImpHolders == << "struct", "message", "branch" >>
ImpRoot(k, w, h) ==
  LET t == ImpWrap(w, R(ImpTypeName(k))) IN
  << [k |-> "import", path |-> "./dep.bop"], Co("string", "go_package", "\"@ROOTPKG@\"") >> \o
  (CASE h = "struct" -> << St("Holder", << F("pre", P("bool")), F("x", t), F("post", P("byte")) >>) >>
     [] h = "message" -> << Ms("Holder", << FI(1, "pre", P("bool")), FI(2, "x", t), FI(3, "post", P("byte")) >>) >>
     [] h = "branch" -> << Un("Holder", << Br(1, St("HA", << F("x", t) >>)), Br(2, Ms("HB", << FI(1, "x", t) >>)) >>) >>)
\* a second imported file whose package name has the first one's as a prefix; the root uses only it ("two"), or both
ImpDep2 == << Co("string", "go_package", "\"@DEP2PKG@\""), St("TX", << F("q", P("int32")) >>) >>
ImpRoot2(w, h, both) ==
  LET t == ImpWrap(w, R("TX")) IN
  << [k |-> "import", path |-> "./dep.bop"], [k |-> "import", path |-> "./dep2.bop"], Co("string", "go_package", "\"@ROOTPKG@\"") >> \o
  (IF h = "struct" THEN << St("Holder", << F("x", t) >> \o (IF both THEN << F("y", R("TB")) >> ELSE <<>>)) >>
   ELSE << Ms("Holder", << FI(1, "x", t) >> \o (IF both THEN << FI(2, "y", R("MB")) >> ELSE <<>>)) >>)
NImpOne == Len(ImpKinds) * 5 * Len(ImpHolders)
NImpUse == NImpOne + 5 * 2 * 2
ImpCase(i) == IF i <= NImpOne
              THEN [k |-> ImpKinds[((i - 1) % 4) + 1], w |-> (((i - 1) \div 4) % 5) + 1, h |-> ImpHolders[((i - 1) \div 20) + 1], deps |-> "one"]
              ELSE LET q == i - NImpOne - 1 IN
                   [k |-> "struct", w |-> (q % 5) + 1, h |-> ImpHolders[((q \div 5) % 2) + 1], deps |-> IF q \div 10 = 0 THEN "two" ELSE "both"]
ImpItems(i) == IF ImpCase(i).deps = "one" THEN ImpRoot(ImpCase(i).k, ImpCase(i).w, ImpCase(i).h)
               ELSE ImpRoot2(ImpCase(i).w, ImpCase(i).h, ImpCase(i).deps = "both")
\* the schema the two files denote together (imports resolved) is well-formed
ImpInlined(i) == SelectSeq(ImpDep, LAMBDA d : d.k # "const") \o (IF ImpCase(i).deps = "one" THEN <<>> ELSE SelectSeq(ImpDep2, LAMBDA d : d.k # "const"))
                 \o SelectSeq(ImpItems(i), LAMBDA d : d.k \notin {"import", "const"})

-----------------------------------------------------------------------------
(* Duplicates ACROSS files: in combined import mode the imported file's      *)
(* definitions become part of the schema, so a name, const or opcode         *)
(* declared in both files is a duplicate like any other.                     *)
DupRoot == << [k |-> "import", path |-> "./dep.bop"], Co("int32", "rc", "1"), St("RootS", << F("a", P("int32")) >>),
              En("RootE", "", << Mem("A", "1", <<1,0,0,0>>) >>), MsOp("RootOp", "7", <<7,0,0,0>>, << FI(1, "b", P("bool")) >>),
              Un("RootU", << Br(1, St("RootUA", << F("a", P("int32")) >>)) >>) >>
\* (an opcode identifies a record on the wire: it must be unique whichever way the imported file is generated)
DupKinds == << "none", "const", "struct", "enum", "message named like a struct", "opcode", "union", "struct named like a union branch",
               "none (separate import mode)", "opcode (separate import mode)", "opcode of a message (separate import mode)" >>
DupSeparate(kind) == kind \in {"none (separate import mode)", "opcode (separate import mode)", "opcode of a message (separate import mode)"}
DupDep(kind) ==
  << St("DepS", << F("a", P("int32")) >>) >> \o
  (CASE kind \in {"none", "none (separate import mode)"} -> << Co("int32", "dc", "2") >>
     [] kind = "opcode (separate import mode)" -> << StOp("DepOp", "0x7", <<7,0,0,0>>, << F("b", P("bool")) >>) >>
     [] kind = "opcode of a message (separate import mode)" -> << MsOp("DepOpM", "7", <<7,0,0,0>>, << FI(1, "b", P("bool")) >>) >>
     [] kind = "const" -> << Co("int32", "rc", "2") >>
     [] kind = "struct" -> << St("RootS", << F("z", P("bool")) >>) >>
     [] kind = "enum" -> << En("RootE", "", << Mem("B", "1", <<1,0,0,0>>) >>) >>
     [] kind = "message named like a struct" -> << Ms("RootS", << FI(1, "z", P("bool")) >>) >>
     [] kind = "opcode" -> << StOp("DepOp", "0x7", <<7,0,0,0>>, << F("b", P("bool")) >>) >>
     [] kind = "union" -> << Un("RootU", << Br(1, St("DepUA", << F("a", P("int32")) >>)) >>) >>
     [] kind = "struct named like a union branch" -> << St("RootUA", << F("z", P("bool")) >>) >>)
DupInlined(i) == SelectSeq(DupRoot, LAMBDA d : d.k # "import") \o DupDep(DupKinds[i])

-----------------------------------------------------------------------------
Init == part = "" /\ ci = 0
Count(p) == CASE p = "base" -> 2 [] p = "inject" -> Len(Injections) [] p = "sites" -> Len(SiteInjections) [] p = "graph" -> GraphCount [] p = "names" -> NNames [] p = "impuse" -> NImpUse [] p = "impdup" -> Len(DupKinds)
Next == \/ part = "" /\ part' \in Parts /\ UNCHANGED ci
        \/ part # "" /\ ci = 0 /\ ci' \in 1..Count(part) /\ UNCHANGED part
IsCase == ci > 0

GC == GraphCase(ci - 1, 1)
Items == CASE part = "base" -> (IF ci = 1 THEN Base ELSE Base2)
           [] part = "inject" -> Injections[ci].items
           [] part = "sites" -> SiteInjections[ci].items
           [] part = "names" -> NameItems(NameCase(ci).pos, NameCase(ci).nm.n)
           [] part = "impuse" -> ImpItems(ci)
           [] part = "impdup" -> (IF DupSeparate(DupKinds[ci]) THEN << DupRoot[1], Co("string", "go_package", "\"example.com/x/root\"") >> \o Tail(DupRoot) ELSE DupRoot)
           [] part = "graph" -> GraphItems(GC.n, GC.g, GC.kind)
Class == CASE part = "base" -> "" [] part = "inject" -> Injections[ci].class [] part = "sites" -> SiteInjections[ci].class [] part = "names" -> "" [] part = "impuse" -> "" [] part = "impdup" -> Violated(DupInlined(ci)) [] part = "graph" -> "struct necessarily contains itself"
Site  == CASE part = "base" -> "" [] part = "inject" -> Injections[ci].site [] part = "sites" -> SiteInjections[ci].site
           [] part = "names" -> NameCase(ci).nm.n \o " as " \o NameCase(ci).pos
           [] part = "impdup" -> "two files, declared in both: " \o DupKinds[ci]
           [] part = "impuse" -> "imported " \o ImpCase(ci).k \o " under wrapper " \o ToString(ImpCase(ci).w) \o " in a " \o ImpCase(ci).h
                                \o (CASE ImpCase(ci).deps = "one" -> "" [] ImpCase(ci).deps = "two" -> " (from the second of two imported files, the first unused)"
                                       [] OTHER -> " (two imported files, both used)")
           [] part = "graph" -> ToString(GC.n) \o " structs, graph " \o ToString(GC.g) \o ", edges " \o GC.kind
\* the specification's verdict; edges through arrays/maps are left open by the property's wording
Expect == IF part = "impdup" THEN (IF Violated(DupInlined(ci)) = "" THEN "accept" ELSE "reject")
          ELSE IF part = "impuse" THEN (IF Violated(ImpInlined(ci)) = "" THEN "accept" ELSE "reject")
          ELSE IF part = "graph" /\ GC.kind \in {"array", "map"} THEN "unspec"
          ELSE IF Violated(Items) = "" THEN "accept" ELSE "reject"

\* the base is well-formed; each injection violates exactly the rule it is filed under
BaseWellFormed == Violated(Base) = "" /\ Violated(Base2) = ""
InjectionsIllFormed == (IsCase /\ part \in {"inject", "sites"}) => Violated(Items) = Class
Where == IF part = "sites" THEN SiteInjections[ci].where
         ELSE IF part = "impdup" /\ DupKinds[ci] = "struct named like a union branch" THEN "branch" ELSE ""
\* every naming of the small schemas is a valid schema
NamesWellFormed == (IsCase /\ part = "names") => Violated(Items) = ""
ImportUseWellFormed == (IsCase /\ part = "impuse") => Violated(ImpInlined(ci)) = ""
\* only the "none" variant is well-formed, each other variant violates a rule of the validator
DupVerdicts == (IsCase /\ part = "impdup") => ((Violated(DupInlined(ci)) = "") <=> (DupKinds[ci] \in {"none", "none (separate import mode)"}))
NameOf == IF part = "names" THEN NameCase(ci).nm @@ [pos |-> NameCase(ci).pos] ELSE [pos |-> ""]
\* graphs: direct edges are rejected iff the graph has a cycle; message/union edges never
GraphVerdicts == (IsCase /\ part = "graph" /\ GC.kind \in {"message", "union"}) => Violated(Items) = ""

Export == IsCase => PrintT("@@PCASE " \o ToJson([part |-> part, ci |-> ci, tokens |-> Tokens(Items), file |-> [x |-> 0],
                                                  extra |-> [class |-> Class, site |-> Site, where |-> Where, expect |-> Expect, name |-> NameOf,
                                                             dep |-> IF part = "impuse" THEN Tokens(ImpDep) ELSE IF part = "impdup" THEN Tokens((IF DupSeparate(DupKinds[ci]) THEN << Co("string", "go_package", "\"example.com/x/dep\"") >> ELSE <<>>) \o DupDep(DupKinds[ci])) ELSE <<>>,
                                                             \* combined mode inlines the imported file: it must not define go_package a second time
                                                             depc |-> IF part = "impuse" THEN Tokens(Tail(ImpDep)) ELSE <<>>,
                                                             dep2 |-> IF part = "impuse" /\ ImpCase(ci).deps # "one" THEN Tokens(ImpDep2) ELSE <<>>,
                                                             dep2c |-> IF part = "impuse" /\ ImpCase(ci).deps # "one" THEN Tokens(Tail(ImpDep2)) ELSE <<>>]]))
=============================================================================
