---------------------------- MODULE Gen_Literals ----------------------------
(***************************************************************************)
(* C15: one schema holding consts of every const-able type in every literal *)
(* form, enums over every base type with boundary members, [flags] enums     *)
(* with expression trees over earlier members, and opcodes in every form;    *)
(* with, for each, the Go identifier it must appear as and its value as a    *)
(* bit pattern computed by Literals.tla.                                     *)
(***************************************************************************)
EXTENDS BebopSchema, Literals, Json

CONSTANTS Tier, Seed
VARIABLES done
vars == <<done>>

NoOp == <<0, 0, 0, 0>>
DL(ds) == [neg |-> FALSE, base |-> 10, digits |-> ds]
NDL(ds) == [neg |-> TRUE, base |-> 10, digits |-> ds]
HL(ds) == [neg |-> FALSE, base |-> 16, digits |-> ds]
NHL(ds) == [neg |-> TRUE, base |-> 16, digits |-> ds]

IntTypes == << [t |-> "byte", w |-> 1, s |-> FALSE], [t |-> "uint8", w |-> 1, s |-> FALSE],
               [t |-> "uint16", w |-> 2, s |-> FALSE], [t |-> "int16", w |-> 2, s |-> TRUE],
               [t |-> "uint32", w |-> 4, s |-> FALSE], [t |-> "int32", w |-> 4, s |-> TRUE],
               [t |-> "uint64", w |-> 8, s |-> FALSE], [t |-> "int64", w |-> 8, s |-> TRUE] >>

\* decimal digits of 2^(8w)-1, 2^(8w-1)-1 and 2^(8w-1)
MaxU(w) == CASE w = 1 -> <<2,5,5>> [] w = 2 -> <<6,5,5,3,5>> [] w = 4 -> <<4,2,9,4,9,6,7,2,9,5>>
             [] w = 8 -> <<1,8,4,4,6,7,4,4,0,7,3,7,0,9,5,5,1,6,1,5>>
MaxS(w) == CASE w = 2 -> <<3,2,7,6,7>> [] w = 4 -> <<2,1,4,7,4,8,3,6,4,7>>
             [] w = 8 -> <<9,2,2,3,3,7,2,0,3,6,8,5,4,7,7,5,8,0,7>>
MinS(w) == CASE w = 2 -> <<3,2,7,6,8>> [] w = 4 -> <<2,1,4,7,4,8,3,6,4,8>>
             [] w = 8 -> <<9,2,2,3,3,7,2,0,3,6,8,5,4,7,7,5,8,0,8>>
AllF(w) == [i \in 1..(2 * w) |-> 15]

IntLits(ty) ==
  IF ty.s THEN << DL(<<0>>), DL(<<1>>), DL(MaxS(ty.w)), NDL(MinS(ty.w)), NDL(<<1>>), HL(<<7>> \o [i \in 1..(2 * ty.w - 1) |-> 15]),
                  NHL(<<1, 0>>), DL(<<4, 2>>) >>
  ELSE << DL(<<0>>), DL(<<1>>), DL(MaxU(ty.w)), HL(AllF(ty.w)), HL(<<1, 0>>), DL(<<4, 2>>) >>

Co(t, name, lit) == [k |-> "const", t |-> t, name |-> name, lit |-> lit, doc |-> NoDoc]
Nm(p, i, j) == p \o ToString(i) \o "x" \o ToString(j)
UpFirst(p) == p   \* names below start with an upper-case letter already

IntConsts == FlattenSeq([i \in 1..Len(IntTypes) |->
   [j \in 1..Len(IntLits(IntTypes[i])) |->
      [item |-> Co(IntTypes[i].t, Nm("Ci", i, j), LitText(IntLits(IntTypes[i])[j])),
       exp |-> [go |-> Nm("Ci", i, j), kind |-> "int", t |-> IntTypes[i].t, bits |-> LitBytes(IntLits(IntTypes[i])[j], IntTypes[i].w), text |-> ""]]]])

\* floating point: a table of literal forms and their IEEE-754 bit patterns (trusted)
FloatForms == << [lit |-> "0", f32 |-> <<0,0,0,0>>, f64 |-> <<0,0,0,0,0,0,0,0>>],
                 [lit |-> "1", f32 |-> <<0,0,128,63>>, f64 |-> <<0,0,0,0,0,0,240,63>>],
                 [lit |-> "3", f32 |-> <<0,0,64,64>>, f64 |-> <<0,0,0,0,0,0,8,64>>],
                 [lit |-> "1.5", f32 |-> <<0,0,192,63>>, f64 |-> <<0,0,0,0,0,0,248,63>>],
                 [lit |-> "-2.25", f32 |-> <<0,0,16,192>>, f64 |-> <<0,0,0,0,0,0,2,192>>],
                 [lit |-> "0.1", f32 |-> <<205,204,204,61>>, f64 |-> <<154,153,153,153,153,153,185,63>>],
                 \* forms the tokenizer classifies as integer literals, and exponents
                 [lit |-> "1e5", f32 |-> <<0,80,195,71>>, f64 |-> <<0,0,0,0,0,106,248,64>>],
                 [lit |-> "0x10", f32 |-> <<0,0,128,65>>, f64 |-> <<0,0,0,0,0,0,48,64>>],
                 [lit |-> "-3", f32 |-> <<0,0,64,192>>, f64 |-> <<0,0,0,0,0,0,8,192>>],
                 [lit |-> "1.5e3", f32 |-> <<0,128,187,68>>, f64 |-> <<0,0,0,0,0,112,151,64>>],
                 [lit |-> "inf", f32 |-> <<0,0,128,127>>, f64 |-> <<0,0,0,0,0,0,240,127>>],
                 [lit |-> "-inf", f32 |-> <<0,0,128,255>>, f64 |-> <<0,0,0,0,0,0,240,255>>],
                 [lit |-> "nan", f32 |-> <<>>, f64 |-> <<>>] >>
FloatConsts == FlattenSeq([j \in 1..Len(FloatForms) |->
   << [item |-> Co("float32", Nm("Cf", 4, j), FloatForms[j].lit),
       exp |-> [go |-> Nm("Cf", 4, j), kind |-> "float", t |-> "float32", bits |-> FloatForms[j].f32, text |-> ""]],
      [item |-> Co("float64", Nm("Cf", 8, j), FloatForms[j].lit),
       exp |-> [go |-> Nm("Cf", 8, j), kind |-> "float", t |-> "float64", bits |-> FloatForms[j].f64, text |-> ""]] >>])

\* strings: the literal as written (with escapes) and the bytes it denotes
StringForms == << [lit |-> "\"hi\"", bytes |-> <<104, 105>>],
                  [lit |-> "\"\"", bytes |-> <<>>],
                  [lit |-> "\"a\\\"b\"", bytes |-> <<97, 34, 98>>],
                  [lit |-> "\"a\\\\b\"", bytes |-> <<97, 92, 98>>],
                  [lit |-> "\"a\\nb\"", bytes |-> <<97, 10, 98>>],
                  [lit |-> "\"t\\tz\"", bytes |-> <<116, 9, 122>>],
                  [lit |-> "\"100% sure\"", bytes |-> <<49,48,48,37,32,115,117,114,101>>],
                  [lit |-> "\"%d of %s\"", bytes |-> <<37,100,32,111,102,32,37,115>>],
                  [lit |-> "\"50%% off\"", bytes |-> <<53,48,37,37,32,111,102,102>>],
                  [lit |-> "\"{}[];=->\"", bytes |-> <<123,125,91,93,59,61,45,62>>],
                  [lit |-> "\"// not a comment /* */\"", bytes |-> <<47,47,32,110,111,116,32,97,32,99,111,109,109,101,110,116,32,47,42,32,42,47>>] >>
StringConsts == [j \in 1..Len(StringForms) |->
   [item |-> Co("string", Nm("Cs", 0, j), StringForms[j].lit),
    exp |-> [go |-> Nm("Cs", 0, j), kind |-> "string", t |-> "string", bits |-> StringForms[j].bytes, text |-> ""]]]
OtherConsts == <<
   [item |-> Co("bool", "Cb0x1", "true"), exp |-> [go |-> "Cb0x1", kind |-> "bool", t |-> "bool", bits |-> <<1>>, text |-> ""]],
   [item |-> Co("bool", "Cb0x2", "false"), exp |-> [go |-> "Cb0x2", kind |-> "bool", t |-> "bool", bits |-> <<0>>, text |-> ""]],
   [item |-> Co("guid", "Cg0x1", "\"e2722bf7-022a-496a-9f01-7029d7d5563d\""),
    exp |-> [go |-> "Cg0x1", kind |-> "guidtext", t |-> "guid", bits |-> <<>>, text |-> "e2722bf7-022a-496a-9f01-7029d7d5563d"]] >>

-----------------------------------------------------------------------------
(* enums with boundary members *)
Mem(name, lit, val) == [name |-> name, lit |-> lit, val |-> val, dep |-> "", doc |-> NoDoc]
EnumLits(ty) ==
  IF ty.s THEN << DL(<<0>>), DL(<<1>>), DL(MaxS(ty.w)), NDL(MinS(ty.w)), NDL(<<1>>), HL(<<1, 0>>) >>
  ELSE << DL(<<0>>), DL(<<1>>), DL(MaxU(ty.w)), HL(<<1, 0>>), DL(<<4, 2>>) >>
PlainEnum(i) ==
  LET ty == IntTypes[i]  ls == EnumLits(ty)  name == "Ep" \o ToString(i) IN
  [item |-> [k |-> "enum", name |-> name, base |-> IF ty.t = "uint32" THEN "" ELSE ty.t, flags |-> FALSE, doc |-> NoDoc,
             members |-> [j \in 1..Len(ls) |-> Mem("M" \o ToString(j), <<LitText(ls[j])>>, LitBytes(ls[j], ty.w))]],
   exps |-> [j \in 1..Len(ls) |-> [go |-> name \o "_M" \o ToString(j), kind |-> "enum", t |-> ty.t, bits |-> LitBytes(ls[j], ty.w), text |-> name]]]

\* [flags] enums: expression trees over literals and earlier members
L(n) == [op |-> "lit", lit |-> DL(<<n>>)]
Ref(nm) == [op |-> "ref", name |-> nm]
Bin(o, l, r) == [op |-> o, l |-> l, r |-> r]
\* every [flags] enum has the reference members A = 1, B = 2 and one member X defined by an expression
FlagExprs(ty) ==
  LET top == 8 * ty.w - 1
      topd == IF top < 10 THEN <<top>> ELSE <<top \div 10, top % 10>>
      TopLit == [op |-> "lit", lit |-> DL(topd)]
      G == Bin("<<", L(1), TopLit)
  IN << Bin("|", Ref("A"), Ref("B")), Bin("<<", L(1), L(3)), Bin(">>", Bin("<<", L(1), L(3)), L(1)),
        Bin("|", Bin("&", Bin("|", Ref("A"), Ref("B")), Ref("B")), L(4)),
        G, Bin(">>", G, TopLit), Bin(">>", G, L(1)),
        Bin("|", Bin("<<", Bin("|", Ref("A"), Ref("B")), L(4)), Bin("&", Bin("|", Ref("A"), L(8)), L(7))),
        Bin("<<", L(8), Bin("&", Ref("B"), L(2))), Bin("<<", L(1), L(9)), Bin("<<", Ref("A"), Ref("B")),
        Bin(">>", Ref("B"), Ref("A")), Bin("&", [op |-> "lit", lit |-> HL(<<15, 0>>)], [op |-> "lit", lit |-> HL(<<3, 12>>)]),
        Bin(">>", [op |-> "lit", lit |-> HL(<<7>> \o [q \in 1..(2 * ty.w - 1) |-> 15])], L(4)) >>
RefEnv(ty) == << [name |-> "A", val |-> LitBytes(DL(<<1>>), ty.w)], [name |-> "B", val |-> LitBytes(DL(<<2>>), ty.w)] >>
FlagVal(ty, e) == Eval(e, RefEnv(ty), ty.w, ty.s)
FlagOK(ty, e) == LET v == FlagVal(ty, e) IN v # RefEnv(ty)[1].val /\ v # RefEnv(ty)[2].val
FlagEnum(i, j) ==
  LET ty == IntTypes[i]  e == FlagExprs(ty)[j]  name == "Ef" \o ToString(i) \o "x" \o ToString(j)  v == FlagVal(ty, e) IN
  [item |-> [k |-> "enum", name |-> name, base |-> IF ty.t = "uint32" THEN "" ELSE ty.t, flags |-> TRUE, doc |-> NoDoc,
             members |-> << Mem("A", <<"1">>, RefEnv(ty)[1].val), Mem("B", <<"2">>, RefEnv(ty)[2].val), Mem("X", ExprTokens(e, TRUE), v) >>],
   exps |-> << [go |-> name \o "_A", kind |-> "enum", t |-> ty.t, bits |-> RefEnv(ty)[1].val, text |-> name],
               [go |-> name \o "_X", kind |-> "enum", t |-> ty.t, bits |-> v, text |-> name] >>]
NFlagExprs == 14
FlagPairs == SelectSeq(FlattenSeq([i \in 1..Len(IntTypes) |-> [j \in 1..NFlagExprs |-> <<i, j>>]]),
                       LAMBDA pr : FlagOK(IntTypes[pr[1]], FlagExprs(IntTypes[pr[1]])[pr[2]]))

-----------------------------------------------------------------------------
(* opcodes *)
F(name, t) == [name |-> name, t |-> t, idx |-> 0, dep |-> "", doc |-> NoDoc, tags |-> <<>>, trail |-> ""]
FI(idx, name, t) == [name |-> name, t |-> t, idx |-> idx, dep |-> "", doc |-> NoDoc, tags |-> <<>>, trail |-> ""]
OpForms == << [op |-> "7", val |-> <<7,0,0,0>>], [op |-> "0x12345678", val |-> <<120,86,52,18>>],
              [op |-> "4294967295", val |-> <<255,255,255,255>>], [op |-> "\"ABCD\"", val |-> <<65,66,67,68>>],
              [op |-> "\"z~ !\"", val |-> <<122,126,32,33>>], [op |-> "0xa0B1", val |-> <<177,160,0,0>>] >>
OpDefs == [j \in 1..Len(OpForms) |->
  LET name == "Rop" \o ToString(j) IN
  [item |-> IF j % 3 = 0
            THEN [k |-> "message", name |-> name, op |-> OpForms[j].op, opval |-> OpForms[j].val, doc |-> NoDoc, asp |-> "post",
                  fields |-> << FI(1, "a", P("int32")) >>]
            ELSE IF j % 3 = 1
            THEN [k |-> "struct", name |-> name, ro |-> FALSE, op |-> OpForms[j].op, opval |-> OpForms[j].val, doc |-> NoDoc, asp |-> "post",
                  fields |-> << F("a", P("int32")) >>]
            ELSE [k |-> "union", name |-> name, op |-> OpForms[j].op, opval |-> OpForms[j].val, doc |-> NoDoc,
                  branches |-> << [idx |-> 1, dep |-> "", doc |-> NoDoc,
                                   def |-> [k |-> "struct", name |-> name \o "A", ro |-> FALSE, op |-> "", opval |-> NoOp, doc |-> NoDoc,
                                            asp |-> "post", fields |-> << F("a", P("int32")) >>]] >>],
   exp |-> [go |-> name \o "OpCode", kind |-> "opcode", t |-> "uint32", bits |-> OpForms[j].val, text |-> ""]]]

-----------------------------------------------------------------------------
AllConsts == IntConsts \o FloatConsts \o StringConsts \o OtherConsts
PlainEnums == [i \in 1..Len(IntTypes) |-> PlainEnum(i)]
\* enums that come FIRST and define the names A, B and X with other values: a member reference in a later enum means
\* that enum's own member
ShadowEnums == <<
  [item |-> [k |-> "enum", name |-> "Shadow", base |-> "", flags |-> FALSE, doc |-> NoDoc,
             members |-> << Mem("A", <<"5">>, <<5,0,0,0>>), Mem("B", <<"9">>, <<9,0,0,0>>), Mem("X", <<"77">>, <<77,0,0,0>>) >>],
   exps |-> << [go |-> "Shadow_A", kind |-> "enum", t |-> "uint32", bits |-> <<5,0,0,0>>, text |-> "Shadow"] >>],
  [item |-> [k |-> "enum", name |-> "ShadowF", base |-> "", flags |-> TRUE, doc |-> NoDoc,
             members |-> << Mem("A", <<"16">>, <<16,0,0,0>>), Mem("B", <<"32">>, <<32,0,0,0>>), Mem("X", <<"A", "|", "B">>, <<48,0,0,0>>) >>],
   exps |-> << [go |-> "ShadowF_X", kind |-> "enum", t |-> "uint32", bits |-> <<48,0,0,0>>, text |-> "ShadowF"] >>] >>
FlagEnums == ShadowEnums \o [q \in 1..Len(FlagPairs) |-> FlagEnum(FlagPairs[q][1], FlagPairs[q][2])]
Items == [i \in 1..Len(AllConsts) |-> AllConsts[i].item]
         \o [i \in 1..Len(PlainEnums) |-> PlainEnums[i].item] \o [i \in 1..Len(FlagEnums) |-> FlagEnums[i].item]
         \o [i \in 1..Len(OpDefs) |-> OpDefs[i].item]
Expectations == [i \in 1..Len(AllConsts) |-> AllConsts[i].exp]
         \o FlattenSeq([i \in 1..Len(PlainEnums) |-> PlainEnums[i].exps]) \o FlattenSeq([i \in 1..Len(FlagEnums) |-> FlagEnums[i].exps])
         \o [i \in 1..Len(OpDefs) |-> OpDefs[i].exp]

Init == done = FALSE
Next == done = FALSE /\ done' = TRUE

\* every integer literal used fits its type (otherwise the schema would not be valid)
LiteralsFit == \A i \in 1..Len(IntTypes) : \A j \in 1..Len(IntLits(IntTypes[i])) : Fits(IntLits(IntTypes[i])[j], IntTypes[i].w, IntTypes[i].s)
\* sanity of the bit-vector arithmetic: x | x = x, (x << 1) >> 1 = x for small x, two's complement of 1 is all ones
ArithSane == /\ BitOr(<<5, 0>>, <<5, 0>>) = <<5, 0>>
             /\ Shr(Shl(<<5, 0>>, 1), 1, FALSE) = <<5, 0>>
             /\ Negate(<<1, 0, 0, 0>>) = <<255, 255, 255, 255>>
             /\ Shr(<<0, 128>>, 15, TRUE) = <<255, 255>>
             /\ Shr(<<0, 128>>, 15, FALSE) = <<1, 0>>
             /\ LitBytes(DL(MaxU(8)), 8) = <<255,255,255,255,255,255,255,255>>
             /\ LitBytes(NDL(MinS(8)), 8) = <<0,0,0,0,0,0,0,128>>
ASSUME LiteralsFit /\ ArithSane

Export == done => PrintT("@@LCASE " \o ToJson([tokens |-> Tokens(Items), expect |-> Expectations, file |-> FileOf(Items)]))
=============================================================================
