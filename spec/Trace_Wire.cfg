CONSTANTS
  Prop = "C02"
  Devs = {}
SPECIFICATION Spec
INVARIANT Done
POSTCONDITION TraceAccepted
CHECK_DEADLOCK FALSE
