---------------------------- MODULE Trace_IoHelp ----------------------------
(***************************************************************************)
(* Judges the observations of direct calls to /repo/iohelp against the     *)
(* primitive layouts of BebopWire (EncPrim / DecPrim):                      *)
(*   prim : Write*Bytes and Write* produce EncPrim(t, v); Read*Bytes and     *)
(*          Read* of EncPrim(t, v) return v (all 8/16-bit values, NaN        *)
(*          payloads, GUID field order, tick 0 <-> zero time)                *)
(*   str  : ReadStringBytes(SharedMemory) errors iff the declared length     *)
(*          exceeds the buffer, otherwise returns exactly the bytes          *)
(*   seq  : several values read from one ErrorReader: each comes back and     *)
(*          exactly their bytes are consumed                                   *)
(*   blen : a byte-slice function given fewer bytes than the width does not  *)
(*          return and touches nothing behind the slice; given more, it uses *)
(*          exactly the first `width` bytes                                  *)
(*   stale: a stream read that fails sets Err and its result does not        *)
(*          depend on what an earlier read left in the scratch buffer        *)
(***************************************************************************)
EXTENDS BebopWire, Json

Trace == ndJsonDeserialize("events.ndjson")
VARIABLES l, nOK, nViol
vars == <<l, nOK, nViol>>

NormPrim(p, v) == IF p = "bool" THEN (IF v[1] = 1 THEN <<1>> ELSE <<0>>) ELSE v

Why(e) ==
  CASE e.ev = "prim" ->
        LET w == EncPrim(e.t, e.v) IN
        IF e.panic # "" THEN "iohelp panicked for " \o e.t \o ": " \o e.panic
        ELSE IF e.wb # w THEN "Write" \o e.t \o "Bytes does not produce the wire layout"
        ELSE IF e.ws # w THEN "Write" \o e.t \o " (stream) does not produce the wire layout"
        ELSE IF e.rb # NormPrim(e.t, e.v) THEN "Read" \o e.t \o "Bytes does not return the value written"
        ELSE IF e.rs # NormPrim(e.t, e.v) THEN "Read" \o e.t \o " (stream) does not return the value written"
        ELSE IF e.rerr THEN "Read" \o e.t \o " (stream) set Err on a complete value"
        ELSE ""
    [] e.ev = "str" ->
        IF e.panic # "" THEN e.fn \o " panicked (declared " \o ToString(e.decl) \o ", available " \o ToString(e.avail) \o "): " \o e.panic
        ELSE IF e.short /\ e.res # "err" THEN e.fn \o " does not report a declared length beyond the buffer"
        ELSE IF ~e.short /\ e.res # "nil" THEN e.fn \o " rejects a string that fits the buffer"
        ELSE IF ~e.short /\ e.val # e.want THEN e.fn \o " returns different bytes"
        ELSE ""
    [] e.ev = "stale" ->
        IF e.panic # "" THEN "Read" \o e.t \o " (stream) panicked on a short read: " \o e.panic
        ELSE IF ~e.errset THEN "Read" \o e.t \o " (stream): a failed read is not reflected in Err"
        ELSE IF e.a # e.b THEN "Read" \o e.t \o " (stream): the value returned after a failed read depends on the previous read (stale scratch bytes)"
        ELSE ""
    [] e.ev = "seq" ->
        LET what == "reading " \o ToString(e.types) \o " from one ErrorReader over a " \o e.reader \o " reader: " IN
        IF e.panic # "" THEN what \o "panic: " \o e.panic
        ELSE IF e.err THEN what \o "Err is set although every value is there"
        ELSE IF ~e.ok THEN what \o e.bad \o " is not the value on the stream"
        ELSE IF e.consumed # e.want THEN what \o "consumed " \o ToString(e.consumed) \o " bytes, the values have " \o ToString(e.want)
        ELSE ""
    [] e.ev = "blen" ->
        LET fn == (IF e.op = "read" THEN "Read" ELSE "Write") \o e.t \o "Bytes"
            on == " on a slice of " \o ToString(e.n) \o " bytes (width " \o ToString(e.w) \o ")" IN
        IF e.behind THEN fn \o " changes bytes that are not part of the value" \o on
        ELSE IF e.n < e.w /\ e.returned THEN fn \o " returns normally" \o on \o ": it used bytes outside the slice"
        ELSE IF e.n >= e.w /\ ~e.returned THEN fn \o " panics" \o on
        ELSE IF e.n >= e.w /\ e.val # e.want THEN fn \o " does not use exactly the first bytes" \o on
        ELSE ""
    [] OTHER -> ""

Init == l = 1 /\ nOK = 0 /\ nViol = 0
Step == /\ l <= Len(Trace)
        /\ LET e == Trace[l]  w == Why(e) IN
           /\ l' = l + 1
           /\ nOK' = nOK + (IF w = "" THEN 1 ELSE 0)
           /\ nViol' = nViol + (IF w = "" THEN 0 ELSE 1)
           /\ (w # "") => PrintT("@@V " \o ToJson([l |-> l, why |-> w]))
Spec == Init /\ [][Step]_vars
TraceAccepted == TLCGet("stats").diameter - 1 = Len(Trace)
Done == l = Len(Trace) + 1 => PrintT("@@COUNTS " \o ToJson([ok |-> nOK, viol |-> nViol]))
=============================================================================
