----------------------------- MODULE BebopWire -----------------------------
(***************************************************************************)
(* The Bebop wire format as an executable reference model.                 *)
(*                                                                         *)
(* Written from the published wire format, sharing nothing with the        *)
(* repository.  Schemas are DATA (a sequence of definitions), so that one  *)
(* trace may mix events of many schemas.                                   *)
(*                                                                         *)
(*   type   ::= [k |-> "p", p |-> prim]            primitive               *)
(*            | [k |-> "a", e |-> type]            array                   *)
(*            | [k |-> "m", key |-> prim, v |-> type]   map                *)
(*            | [k |-> "r", n |-> name]            reference to a def      *)
(*   def    ::= [name, kind |-> "enum",    base, members]                  *)
(*            | [name, kind |-> "struct",  ro, fields  : Seq([name, t])]   *)
(*            | [name, kind |-> "message", fields : Seq([idx,name,t,dep])] *)
(*            | [name, kind |-> "union",   branches : Seq([idx, n])]       *)
(*   value  ::= scalar/enum = little-endian byte sequence of its width     *)
(*            | guid   = 16 bytes in text order                            *)
(*            | date   = int64 ticks (100ns) as 8 LE bytes                 *)
(*            | string = byte sequence                                     *)
(*            | array  = sequence of values                                *)
(*            | map    = sequence of <<key, value>> (order = wire order)   *)
(*            | struct = sequence of field values in declaration order     *)
(*            | message= sequence of <<idx, value>>, ascending idx         *)
(*            | union  = <<discriminator, value>>                          *)
(*                                                                         *)
(* TLC integers are 32 bit: every number that can exceed 2^30 is kept as   *)
(* bytes; counts read from the wire saturate at HUGE.                      *)
(***************************************************************************)
EXTENDS Integers, Sequences, FiniteSets, SequencesExt, TLC

HUGE == 1073741824      \* 2^30, "larger than any buffer"

LE32(n) == << n % 256, (n \div 256) % 256, (n \div 65536) % 256, (n \div 16777216) % 256 >>

\* 32-bit count at 0-based offset at of b (needs at+4 <= Len(b)); saturating
U32(b, at) == IF b[at+4] >= 64 THEN HUGE
              ELSE b[at+1] + 256 * b[at+2] + 65536 * b[at+3] + 16777216 * b[at+4]

Prims == {"bool","byte","uint8","uint16","int16","uint32","int32","uint64","int64",
          "float32","float64","string","guid","date"}

PrimWidth == [bool |-> 1, byte |-> 1, uint8 |-> 1, uint16 |-> 2, int16 |-> 2,
              uint32 |-> 4, int32 |-> 4, uint64 |-> 8, int64 |-> 8,
              float32 |-> 4, float64 |-> 8, guid |-> 16, date |-> 8]

\* .NET Guid.ToByteArray(): first three groups little-endian.  An involution.
GuidPerm == <<4,3,2,1, 6,5, 8,7, 9,10,11,12,13,14,15,16>>
GuidWire(g) == [i \in 1..16 |-> g[GuidPerm[i]]]

Def(S, n) == S[CHOOSE i \in 1..Len(S) : S[i].name = n]
HasDef(S, n) == \E i \in 1..Len(S) : S[i].name = n

P(p) == [k |-> "p", p |-> p]
R(n) == [k |-> "r", n |-> n]
A(t) == [k |-> "a", e |-> t]
M(key, t) == [k |-> "m", key |-> key, v |-> t]

-----------------------------------------------------------------------------
(* Lexicographic order on byte sequences; canonical map order *)
RECURSIVE LexLess(_, _)
LexLess(a, b) ==
  IF b = <<>> THEN FALSE
  ELSE IF a = <<>> THEN TRUE
  ELSE IF a[1] # b[1] THEN a[1] < b[1]
  ELSE LexLess(Tail(a), Tail(b))

SortPairs(ps) == SortSeq(ps, LAMBDA x, y : LexLess(x[1], y[1]))

-----------------------------------------------------------------------------
(* Encoding *)
EncPrim(p, v) ==
  CASE p = "string" -> LE32(Len(v)) \o v
    [] p = "guid"   -> GuidWire(v)
    [] OTHER        -> v

RECURSIVE Enc(_, _, _)
RECURSIVE EncDef(_, _, _)

Enc(S, t, v) ==
  CASE t.k = "p" -> EncPrim(t.p, v)
    [] t.k = "a" -> LE32(Len(v)) \o FlattenSeq([i \in 1..Len(v) |-> Enc(S, t.e, v[i])])
    [] t.k = "m" -> LE32(Len(v)) \o
                    FlattenSeq([i \in 1..Len(v) |-> EncPrim(t.key, v[i][1]) \o Enc(S, t.v, v[i][2])])
    [] t.k = "r" -> EncDef(S, Def(S, t.n), v)

MsgField(d, idx) == d.fields[CHOOSE i \in 1..Len(d.fields) : d.fields[i].idx = idx]
MsgHas(d, idx) == \E i \in 1..Len(d.fields) : d.fields[i].idx = idx
Branch(d, idx) == d.branches[CHOOSE i \in 1..Len(d.branches) : d.branches[i].idx = idx]
UnionHas(d, idx) == \E i \in 1..Len(d.branches) : d.branches[i].idx = idx

EncDef(S, d, v) ==
  CASE d.kind = "enum"   -> v
    [] d.kind = "struct" -> FlattenSeq([i \in 1..Len(d.fields) |-> Enc(S, d.fields[i].t, v[i])])
    [] d.kind = "message" ->
         LET body == FlattenSeq([i \in 1..Len(v) |->
                        IF MsgField(d, v[i][1]).dep THEN <<>>
                        ELSE <<v[i][1]>> \o Enc(S, MsgField(d, v[i][1]).t, v[i][2])]) \o <<0>>
         IN LE32(Len(body)) \o body
    [] d.kind = "union" ->
         LET body == Enc(S, R(Branch(d, v[1]).n), v[2])
         IN LE32(Len(body)) \o <<v[1]>> \o body

(* Size, defined structurally (theorem SizeIsLen: Size = Len o Enc) *)
RECURSIVE Size(_, _, _)
RECURSIVE SumSeq(_)
SumSeq(s) == IF s = <<>> THEN 0 ELSE s[1] + SumSeq(Tail(s))

Size(S, t, v) ==
  CASE t.k = "p" -> IF t.p = "string" THEN 4 + Len(v) ELSE PrimWidth[t.p]
    [] t.k = "a" -> 4 + SumSeq([i \in 1..Len(v) |-> Size(S, t.e, v[i])])
    [] t.k = "m" -> 4 + SumSeq([i \in 1..Len(v) |->
                          Size(S, P(t.key), v[i][1]) + Size(S, t.v, v[i][2])])
    [] t.k = "r" ->
        LET d == Def(S, t.n) IN
        CASE d.kind = "enum" -> PrimWidth[d.base]
          [] d.kind = "struct" -> SumSeq([i \in 1..Len(d.fields) |-> Size(S, d.fields[i].t, v[i])])
          [] d.kind = "message" ->
               5 + SumSeq([i \in 1..Len(v) |->
                       IF MsgField(d, v[i][1]).dep THEN 0
                       ELSE 1 + Size(S, MsgField(d, v[i][1]).t, v[i][2])])
          [] d.kind = "union" -> 5 + Size(S, R(Branch(d, v[1]).n), v[2])

(* Layout: for every byte of Enc its role.  A role is a string; the role   *)
(* of the byte at offset k is what a decoder is reading when input is cut   *)
(* at k.                                                                     *)
Rep(n, x) == [i \in 1..n |-> x]
\* an n-byte wire element: its first byte carries the start marker "^"
El(n, x) == IF n = 0 THEN <<>> ELSE <<"^" \o x>> \o Rep(n - 1, x)

Roles == {"scalar", "str.len", "str.body", "arr.count", "map.count", "map.key", "enum",
          "msg.len", "msg.idx", "msg.term", "union.len", "union.disc"}
IsStart(x) == \E r \in Roles : x = "^" \o r
RoleOf(x) == IF IsStart(x) THEN CHOOSE r \in Roles : x = "^" \o r ELSE x

RECURSIVE Lay(_, _, _)
LayPrim(p, v) ==
  IF p = "string" THEN El(4, "str.len") \o El(Len(v), "str.body")
  ELSE El(PrimWidth[p], "scalar")

Lay(S, t, v) ==
  CASE t.k = "p" -> LayPrim(t.p, v)
    [] t.k = "a" -> El(4, "arr.count") \o FlattenSeq([i \in 1..Len(v) |-> Lay(S, t.e, v[i])])
    [] t.k = "m" -> El(4, "map.count") \o
                    FlattenSeq([i \in 1..Len(v) |->
                        (IF t.key = "string" THEN LayPrim(t.key, v[i][1])
                         ELSE El(PrimWidth[t.key], "map.key")) \o Lay(S, t.v, v[i][2])])
    [] t.k = "r" ->
        LET d == Def(S, t.n) IN
        CASE d.kind = "enum" -> El(PrimWidth[d.base], "enum")
          [] d.kind = "struct" -> FlattenSeq([i \in 1..Len(d.fields) |-> Lay(S, d.fields[i].t, v[i])])
          [] d.kind = "message" ->
               El(4, "msg.len") \o
               FlattenSeq([i \in 1..Len(v) |->
                    IF MsgField(d, v[i][1]).dep THEN <<>>
                    ELSE <<"^msg.idx">> \o Lay(S, MsgField(d, v[i][1]).t, v[i][2])]) \o <<"^msg.term">>
          [] d.kind = "union" ->
               El(4, "union.len") \o <<"^union.disc">> \o Lay(S, R(Branch(d, v[1]).n), v[2])

-----------------------------------------------------------------------------
(* Normal form: the wire format's own normalisations *)
RECURSIVE Norm(_, _, _)
Norm(S, t, v) ==
  CASE t.k = "p" -> v
    [] t.k = "a" -> [i \in 1..Len(v) |-> Norm(S, t.e, v[i])]
    [] t.k = "m" -> SortPairs([i \in 1..Len(v) |-> <<v[i][1], Norm(S, t.v, v[i][2])>>])
    [] t.k = "r" ->
        LET d == Def(S, t.n) IN
        CASE d.kind = "enum" -> v
          [] d.kind = "struct" -> [i \in 1..Len(d.fields) |-> Norm(S, d.fields[i].t, v[i])]
          [] d.kind = "message" ->
               LET keep == SelectSeq(v, LAMBDA pr : ~MsgField(d, pr[1]).dep)
               IN [i \in 1..Len(keep) |-> <<keep[i][1], Norm(S, MsgField(d, keep[i][1]).t, keep[i][2])>>]
          [] d.kind = "union" -> <<v[1], Norm(S, R(Branch(d, v[1]).n), v[2])>>

(* a Go map keeps the LAST value stored under a key: what a decoder hands back for wire data with repeated keys *)
KeepLast(ps) == SelectSeq([i \in 1..Len(ps) |-> [i |-> i, p |-> ps[i]]],
                          LAMBDA x : \A j \in (x.i + 1)..Len(ps) : ps[j][1] # x.p[1])
LastWins(ps) == LET k == KeepLast(ps) IN [i \in 1..Len(k) |-> k[i].p]

(* Canon: like Norm but keeps deprecated fields (what a decoder hands back) *)
RECURSIVE Canon(_, _, _)
Canon(S, t, v) ==
  CASE t.k = "p" -> v
    [] t.k = "a" -> [i \in 1..Len(v) |-> Canon(S, t.e, v[i])]
    [] t.k = "m" -> SortPairs(LastWins([i \in 1..Len(v) |-> <<v[i][1], Canon(S, t.v, v[i][2])>>]))
    [] t.k = "r" ->
        LET d == Def(S, t.n) IN
        CASE d.kind = "enum" -> v
          [] d.kind = "struct" -> [i \in 1..Len(d.fields) |-> Canon(S, d.fields[i].t, v[i])]
          [] d.kind = "message" ->
               [i \in 1..Len(v) |-> <<v[i][1], Canon(S, MsgField(d, v[i][1]).t, v[i][2])>>]
          [] d.kind = "union" -> <<v[1], Canon(S, R(Branch(d, v[1]).n), v[2])>>

-----------------------------------------------------------------------------
(* The ideal, checked decoder.  Total; never reads at or beyond lim.         *)
(* Offsets are 0-based counts of consumed bytes.                             *)
Ok(v, at)    == [ok |-> TRUE,  v |-> v,  at |-> at, why |-> ""]
Err(why, at) == [ok |-> FALSE, v |-> <<>>, at |-> at, why |-> why]

DecPrim(p, b, at, lim) ==
  IF p = "string" THEN
     IF at + 4 > lim THEN Err("short:str.len", at)
     ELSE LET n == U32(b, at) IN
          IF n > lim - (at + 4) THEN Err("short:str.body", at + 4)
          ELSE Ok(SubSeq(b, at + 5, at + 4 + n), at + 4 + n)
  ELSE LET w == PrimWidth[p] IN
     IF at + w > lim THEN Err("short:scalar", at)
     ELSE LET raw == SubSeq(b, at + 1, at + w) IN
          Ok(CASE p = "guid" -> GuidWire(raw)
               [] p = "bool" -> IF raw[1] = 1 THEN <<1>> ELSE <<0>>
               [] OTHER -> raw,
             at + w)

\* least number of bytes any value of the type occupies (alloc bounding)
RECURSIVE MinSize(_, _)
MinSize(S, t) ==
  CASE t.k = "p" -> IF t.p = "string" THEN 4 ELSE PrimWidth[t.p]
    [] t.k = "a" -> 4
    [] t.k = "m" -> 4
    [] t.k = "r" ->
        LET d == Def(S, t.n) IN
        CASE d.kind = "enum" -> PrimWidth[d.base]
          [] d.kind = "struct" -> SumSeq([i \in 1..Len(d.fields) |-> MinSize(S, d.fields[i].t)])
          [] d.kind = "message" -> 5
          [] d.kind = "union" -> 5

ZeroSizeCap == 1024   \* arrays of zero-size elements: the format gives no bound; the model caps

RECURSIVE Dec(_, _, _, _, _)
RECURSIVE DecElems(_, _, _, _, _, _, _)
RECURSIVE DecPairs(_, _, _, _, _, _, _)
RECURSIVE DecFields(_, _, _, _, _, _, _)
RECURSIVE DecMsgBody(_, _, _, _, _, _)

\* n more elements of type t, acc so far
DecElems(S, t, b, at, lim, n, acc) ==
  IF n = 0 THEN Ok(acc, at)
  ELSE LET r == Dec(S, t, b, at, lim) IN
       IF ~r.ok THEN r ELSE DecElems(S, t, b, r.at, lim, n - 1, Append(acc, r.v))

DecPairs(S, t, b, at, lim, n, acc) ==
  IF n = 0 THEN Ok(acc, at)
  ELSE LET rk == DecPrim(t.key, b, at, lim) IN
       IF ~rk.ok THEN rk
       ELSE LET rv == Dec(S, t.v, b, rk.at, lim) IN
            IF ~rv.ok THEN rv
            ELSE DecPairs(S, t, b, rv.at, lim, n - 1, Append(acc, <<rk.v, rv.v>>))

DecFields(S, fs, b, at, lim, i, acc) ==
  IF i > Len(fs) THEN Ok(acc, at)
  ELSE LET r == Dec(S, fs[i].t, b, at, lim) IN
       IF ~r.ok THEN r ELSE DecFields(S, fs, b, r.at, lim, i + 1, Append(acc, r.v))

\* message body: at = position of the next index byte, end = first byte after the body
\* acc = pairs in wire order
DecMsgBody(S, d, b, at, end, acc) ==
  IF at >= end THEN Err("short:msg.term", at)
  ELSE LET idx == b[at + 1] IN
       IF idx = 0 THEN Ok(acc, end)
       ELSE IF ~MsgHas(d, idx) THEN Ok(acc, end)      \* unknown field: skip the rest
       ELSE LET r == Dec(S, MsgField(d, idx).t, b, at + 1, end) IN
            IF ~r.ok THEN r
            ELSE DecMsgBody(S, d, b, r.at, end, Append(acc, <<idx, r.v>>))

\* last occurrence of each index, ascending index order
MsgValue(d, acc) ==
  LET present == SelectSeq(d.fields, LAMBDA f : \E i \in 1..Len(acc) : acc[i][1] = f.idx)
      last(idx) == acc[CHOOSE i \in 1..Len(acc) : acc[i][1] = idx /\ \A j \in (i+1)..Len(acc) : acc[j][1] # idx][2]
  IN [i \in 1..Len(present) |-> <<present[i].idx, last(present[i].idx)>>]

Dec(S, t, b, at, lim) ==
  CASE t.k = "p" -> DecPrim(t.p, b, at, lim)
    [] t.k = "a" ->
        IF at + 4 > lim THEN Err("short:arr.count", at)
        ELSE LET n == U32(b, at)  ms == MinSize(S, t.e) IN
             IF ms > 0 /\ n > (lim - (at + 4)) \div ms THEN Err("short:arr.body", at + 4)
             ELSE IF ms = 0 /\ n > ZeroSizeCap THEN Err("unbounded:arr.count", at)
             ELSE DecElems(S, t.e, b, at + 4, lim, n, <<>>)
    [] t.k = "m" ->
        IF at + 4 > lim THEN Err("short:map.count", at)
        ELSE LET n == U32(b, at)  ms == MinSize(S, P(t.key)) + MinSize(S, t.v) IN
             IF n > (lim - (at + 4)) \div ms THEN Err("short:map.body", at + 4)
             ELSE DecPairs(S, t, b, at + 4, lim, n, <<>>)
    [] t.k = "r" ->
        LET d == Def(S, t.n) IN
        CASE d.kind = "enum" -> DecPrim(d.base, b, at, lim)
          [] d.kind = "struct" -> DecFields(S, d.fields, b, at, lim, 1, <<>>)
          [] d.kind = "message" ->
               IF at + 4 > lim THEN Err("short:msg.len", at)
               ELSE LET n == U32(b, at) IN
                    IF n > lim - (at + 4) THEN Err("short:msg.body", at + 4)
                    ELSE LET r == DecMsgBody(S, d, b, at + 4, at + 4 + n, <<>>) IN
                         IF ~r.ok THEN r ELSE Ok(MsgValue(d, r.v), r.at)
          [] d.kind = "union" ->
               IF at + 4 > lim THEN Err("short:union.len", at)
               ELSE LET n == U32(b, at) IN
                    IF n >= lim - (at + 4) THEN Err("short:union.body", at + 4)   \* n + 1 bytes follow
                    ELSE LET disc == b[at + 5]  end == at + 5 + n IN
                         IF ~UnionHas(d, disc) THEN Err("union.unknown", at + 4)
                         ELSE LET r == Dec(S, R(Branch(d, disc).n), b, at + 5, end) IN
                              IF ~r.ok THEN r ELSE Ok(<<disc, r.v>>, end)

DecTop(S, t, b) == Dec(S, t, b, 0, Len(b))

-----------------------------------------------------------------------------
(* Schema evolution (C04).  S2 extends S1 if every definition of S1 is in   *)
(* S2 under the same name and kind, non-message definitions are identical,  *)
(* and every message of S2 has all fields of S1 (same index and type; S1    *)
(* may mark as deprecated what S2 still sends) plus fields with fresh,      *)
(* higher indices.                                                          *)
MaxIdx(d) == IF d.fields = <<>> THEN 0
             ELSE CHOOSE m \in {d.fields[i].idx : i \in 1..Len(d.fields)} :
                      \A i \in 1..Len(d.fields) : d.fields[i].idx <= m

Extends(S1, S2) ==
  \A i \in 1..Len(S1) :
     LET d1 == S1[i] IN
     /\ HasDef(S2, d1.name)
     /\ LET d2 == Def(S2, d1.name) IN
        /\ d2.kind = d1.kind
        /\ IF d1.kind # "message" THEN d2 = d1
           ELSE /\ \A j \in 1..Len(d1.fields) :
                      /\ MsgHas(d2, d1.fields[j].idx)
                      /\ MsgField(d2, d1.fields[j].idx).t = d1.fields[j].t
                /\ \A j \in 1..Len(d2.fields) :
                      MsgHas(d1, d2.fields[j].idx) \/ d2.fields[j].idx > MaxIdx(d1)

\* what a reader holding S1 must see of a value v written under S2
RECURSIVE RestrictTo(_, _, _, _)
RestrictTo(S1, S2, t, v) ==
  CASE t.k = "p" -> v
    [] t.k = "a" -> [i \in 1..Len(v) |-> RestrictTo(S1, S2, t.e, v[i])]
    [] t.k = "m" -> SortPairs([i \in 1..Len(v) |-> <<v[i][1], RestrictTo(S1, S2, t.v, v[i][2])>>])
    [] t.k = "r" ->
        LET d1 == Def(S1, t.n)  d2 == Def(S2, t.n) IN
        CASE d1.kind = "enum" -> v
          [] d1.kind = "struct" -> [i \in 1..Len(d1.fields) |-> RestrictTo(S1, S2, d1.fields[i].t, v[i])]
          [] d1.kind = "message" ->
               LET keep == SelectSeq(v, LAMBDA pr : MsgHas(d1, pr[1]) /\ ~MsgField(d2, pr[1]).dep)
               IN [i \in 1..Len(keep) |->
                      <<keep[i][1], RestrictTo(S1, S2, MsgField(d1, keep[i][1]).t, keep[i][2])>>]
          [] d1.kind = "union" -> <<v[1], RestrictTo(S1, S2, R(Branch(d1, v[1]).n), v[2])>>

=============================================================================
