------------------------------ MODULE Trace_C15 ------------------------------
(***************************************************************************)
(* C15: the values of the Go constants of the generated package, read by     *)
(* compiling and running it, against the values Literals.tla assigns to the  *)
(* schema's literals, [flags] expressions and opcodes.                       *)
(***************************************************************************)
EXTENDS Integers, Sequences, TLC, Json

CONSTANTS Devs
Trace == ndJsonDeserialize("events.ndjson")
VARIABLES l, nOK, nKnown, nViol
vars == <<l, nOK, nKnown, nViol>>

GoKind(t) == IF t = "byte" THEN "uint8" ELSE t

Why(e) ==
  IF e.ev = "build" THEN (IF e.ok THEN "" ELSE "the package generated from a valid schema of constants does not build or run: " \o e.diag)
  ELSE IF ~e.found THEN "no Go constant " \o e.go \o " in the generated package"
  ELSE IF e.kind = "float" /\ e.want = <<>> THEN (IF e.isnan THEN "" ELSE e.go \o " is not NaN")
  ELSE IF e.kind = "guidtext" THEN (IF e.str = e.text THEN "" ELSE e.go \o " does not carry the schema's guid text")
  ELSE IF e.bits # e.want THEN "Go constant " \o e.go \o " (" \o e.kind \o " " \o e.t \o ") does not have the schema's value"
  ELSE IF e.kind = "enum" /\ e.tname # e.text THEN "enum member " \o e.go \o " is not typed as its enum"
  ELSE IF e.kind = "enum" /\ e.rkind # GoKind(e.t) THEN "enum type " \o e.text \o " does not have the declared base type"
  ELSE IF e.mustconst /\ ~e.isconst THEN e.go \o " is not a Go constant"
  ELSE ""

Init == l = 1 /\ nOK = 0 /\ nKnown = 0 /\ nViol = 0
Step == /\ l <= Len(Trace)
        /\ LET e == Trace[l]  w == Why(e) IN
           /\ l' = l + 1
           /\ nOK' = nOK + (IF w = "" THEN 1 ELSE 0)
           /\ nKnown' = nKnown
           /\ nViol' = nViol + (IF w # "" THEN 1 ELSE 0)
           /\ (w # "") => PrintT("@@V " \o ToJson([l |-> l, cid |-> 1, verdict |-> "VIOLATION", why |-> w, dev |-> ""]))
Spec == Init /\ [][Step]_vars
TraceAccepted == TLCGet("stats").diameter - 1 = Len(Trace)
Done == l = Len(Trace) + 1 => PrintT("@@COUNTS " \o ToJson([ok |-> nOK, na |-> 0, known |-> nKnown, viol |-> nViol]))
=============================================================================
