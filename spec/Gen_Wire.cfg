CONSTANTS
  Tier = "quick"
  Seed = 1
  OptMode = "default"
INIT Init
NEXT Next
INVARIANTS SizeIsLen LayoutLen RoundTrip PrefixIsError Export
CHECK_DEADLOCK FALSE
