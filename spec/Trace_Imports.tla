---------------------------- MODULE Trace_Imports ----------------------------
(***************************************************************************)
(* Judges the observations of the real Generate on materialised import      *)
(* graphs against the predictions of Imports.tla carried by each event:     *)
(*   every mode : Generate returns (no panic, no hang)                       *)
(*   separate   : an import-cycle error iff the package graph is cyclic;      *)
(*                otherwise an error iff an imported file has no go_package   *)
(*   combined   : over an acyclic import graph the verdict and the set of      *)
(*                defined types equal those of the inlined schema; over a      *)
(*                cyclic one only termination (and no type defined twice)      *)
(***************************************************************************)
EXTENDS Integers, Sequences, TLC, Json

CONSTANTS Devs
Trace == ndJsonDeserialize("events.ndjson")
VARIABLES l, nOK, nKnown, nViol
vars == <<l, nOK, nKnown, nViol>>

NoDup(s) == \A i, j \in 1..Len(s) : i # j => s[i] # s[j]

Why(e) ==
  IF e.res \in {"panic", "timeout"} THEN "Generate does not return on an import graph (" \o e.res \o ")"
  ELSE IF e.ladder THEN ""
  ELSE IF e.mode = "separate" THEN
       IF e.pkgcyclic /\ ~e.iscycle THEN "separate mode: the package graph is cyclic but no import-cycle error is reported"
       ELSE IF ~e.pkgcyclic /\ e.iscycle THEN "separate mode: an import-cycle error is reported for an acyclic package graph"
       ELSE IF ~e.pkgcyclic /\ e.missingpkg /\ e.res = "nil" THEN "separate mode: an imported file without go_package is accepted"
       ELSE IF ~e.pkgcyclic /\ ~e.missingpkg /\ e.res # "nil" THEN "separate mode: a resolvable acyclic import graph is rejected"
       ELSE ""
  ELSE IF e.importcyclic THEN
       (IF e.res = "nil" /\ ~NoDup(e.types) THEN "combined mode: a type is defined twice" ELSE "")
  ELSE IF (e.res = "nil") # (e.inlineres = "nil") THEN "combined mode: verdict differs from generating the inlined schema"
  ELSE IF e.res = "nil" /\ e.types # e.inlinetypes THEN "combined mode: defined types differ from the inlined schema"
  ELSE IF e.res = "nil" /\ e.compiles # "" THEN "combined mode: the output does not compile: " \o e.compiles
  ELSE IF e.res = "nil" /\ ~e.samecode THEN "combined mode: the generated declarations differ from those generated for the inlined schema"
  ELSE ""

\* as-is: a path resolved against the wrong directory does not exist in these universes: an open error
Dev(e) == IF "imports_resolved_from_root_dir" \in Devs /\ e.pathbroken /\ e.openfail THEN "imports_resolved_from_root_dir"
          ELSE IF "dfs_redescends_visited" \in Devs /\ e.ladder /\ e.res = "timeout" THEN "dfs_redescends_visited"
          ELSE ""

Init == l = 1 /\ nOK = 0 /\ nKnown = 0 /\ nViol = 0
Step == /\ l <= Len(Trace)
        /\ LET e == Trace[l]  w == Why(e)  d == IF w = "" THEN "" ELSE Dev(e) IN
           /\ l' = l + 1
           /\ nOK' = nOK + (IF w = "" THEN 1 ELSE 0)
           /\ nKnown' = nKnown + (IF w # "" /\ d # "" THEN 1 ELSE 0)
           /\ nViol' = nViol + (IF w # "" /\ d = "" THEN 1 ELSE 0)
           /\ (w # "") => PrintT("@@V " \o ToJson([l |-> l, cid |-> 1, verdict |-> IF d = "" THEN "VIOLATION" ELSE "KNOWN", why |-> w, dev |-> d]))
Spec == Init /\ [][Step]_vars
TraceAccepted == TLCGet("stats").diameter - 1 = Len(Trace)
Done == l = Len(Trace) + 1 => PrintT("@@COUNTS " \o ToJson([ok |-> nOK, na |-> 0, known |-> nKnown, viol |-> nViol]))
=============================================================================
