---------------------------- MODULE WireUniverse ----------------------------
(***************************************************************************)
(* The bounded universes of schemas (shape x context), option sets and     *)
(* values that TLC enumerates for the generated-code properties            *)
(* (C01-C09, C12).  DESIGN.md section 7, "common vocabulary".              *)
(***************************************************************************)
EXTENDS BebopWire, Json

CONSTANTS Tier,      \* "quick" | "thorough"
          Seed       \* natural; selects the sampled part of the quick tier

Z(n) == Rep(n, 0)
FF(n) == Rep(n, 255)

-----------------------------------------------------------------------------
(* Values of primitives: boundaries + an ascending-digits pattern *)
ScalarVals(w) ==
  IF w = 1 THEN << <<0>>, <<1>>, <<255>>, <<128>>, <<127>> >>
  ELSE << Z(w), <<1>> \o Z(w-1), FF(w), Z(w-1) \o <<128>>, FF(w-1) \o <<127>>, [i \in 1..w |-> i] >>

LongString == [i \in 1..300 |-> 32 + (i % 90)]

PrimVals(p) ==
  CASE p = "bool"    -> << <<0>>, <<1>> >>
    [] p = "float32" -> << Z(4), <<0,0,0,128>>, <<0,0,192,63>>, <<0,0,128,127>>, <<0,0,128,255>>,
                           <<0,0,192,127>>, <<1,0,160,127>> >>
    [] p = "float64" -> << Z(8), Z(7) \o <<128>>, Z(6) \o <<248,63>>, Z(6) \o <<240,127>>,
                           Z(6) \o <<240,255>>, Z(6) \o <<248,127>>, <<1,0,0,0,0,0,244,127>> >>
    [] p = "string"  -> IF Tier = "thorough"
                        THEN << <<>>, <<97>>, <<255,254>>, <<104,195,169,108,108,111,0,34,92>>, LongString >>
                        ELSE << <<>>, <<97>>, <<255,254>>, <<104,195,169,108,108,111,0,34,92>> >>
    [] p = "guid"    -> << [i \in 1..16 |-> i - 1], Z(16), FF(16), [i \in 1..16 |-> 160 + i] >>
    [] p = "date"    -> << Z(8), <<1>> \o Z(7), <<0,0,104,76,234,215,56,0>>, FF(8),
                           <<174,71,225,122,20,174,71,1>> >>
    [] OTHER         -> ScalarVals(PrimWidth[p])

\* two distinct, well-behaved keys per key type (no -0: Go maps identify it with +0); float types also get a NaN
KeyVals(p) ==
  CASE p = "bool"    -> << <<1>>, <<0>> >>
    [] p = "float32" -> << <<0,0,192,63>>, <<0,0,128,255>>, <<0,0,192,127>> >>            \* ... and a NaN: a key no lookup finds again
    [] p = "float64" -> << Z(6) \o <<248,63>>, Z(6) \o <<240,255>>, Z(6) \o <<248,127>> >>
    [] p = "string"  -> << <<107,49>>, <<>> >>
    [] p = "guid"    -> << [i \in 1..16 |-> i - 1], FF(16) >>
    [] p = "date"    -> << <<0,0,104,76,234,215,56,0>>, <<1>> \o Z(7) >>
    [] OTHER         -> LET w == PrimWidth[p] IN << <<1>> \o Z(w-1), FF(w) >>

-----------------------------------------------------------------------------
(* Supporting definitions *)
EnumBases == <<"byte","uint8","uint16","int16","uint32","int32","uint64","int64">>
Signed(b) == b \in {"int16","int32","int64"}

EnumName(b) == "En" \o b
EnumDef(b) ==
  LET w == PrimWidth[b] IN
  [name |-> EnumName(b), kind |-> "enum", base |-> b,
   members |-> << [name |-> "A", val |-> <<1>> \o Z(w-1)],
                  [name |-> "B", val |-> IF Signed(b) THEN Z(w-1) \o <<128>> ELSE FF(w)],
                  [name |-> "C", val |-> <<7>> \o Z(w-1)] >>]

Fld(n, t) == [name |-> n, t |-> t]
MFld(i, n, t, dep) == [idx |-> i, name |-> n, t |-> t, dep |-> dep]

InnerDef == [name |-> "Inner", kind |-> "struct", ro |-> FALSE,
             fields |-> << Fld("a", P("int32")), Fld("b", P("string")) >>]
EmptyDef == [name |-> "Empty", kind |-> "struct", ro |-> FALSE, fields |-> <<>>]
FxDef    == [name |-> "Fx", kind |-> "struct", ro |-> FALSE,
             fields |-> << Fld("e", R("Enuint8")), Fld("n", P("int16")), Fld("g", P("guid")) >>]
RoDef    == [name |-> "RoPt", kind |-> "struct", ro |-> TRUE,
             fields |-> << Fld("x", P("uint16")), Fld("y", P("guid")) >>]
MsgDef   == [name |-> "Msg", kind |-> "message",
             fields |-> << MFld(1, "a", P("int32"), FALSE), MFld(2, "b", P("string"), FALSE),
                           MFld(4, "c", P("uint8"), TRUE) >>]
EmptyMsgDef == [name |-> "EmptyMsg", kind |-> "message", fields |-> <<>>]
UnDefs   == << [name |-> "Un", kind |-> "union",
                branches |-> << [idx |-> 1, n |-> "UnA"], [idx |-> 3, n |-> "UnB"] >>],
               [name |-> "UnA", kind |-> "struct", ro |-> FALSE, inner |-> "Un",
                fields |-> << Fld("x", P("byte")), Fld("s", P("string")) >>],
               [name |-> "UnB", kind |-> "message", inner |-> "Un",
                fields |-> << MFld(1, "y", P("int32"), FALSE) >>] >>

PrimSeq == <<"bool","byte","uint8","uint16","int16","uint32","int32","uint64","int64",
             "float32","float64","string","guid","date">>

\* a leaf = [t |-> type, sup |-> supporting defs it needs, tag |-> short name]
PrimLeaves == [i \in 1..Len(PrimSeq) |-> [t |-> P(PrimSeq[i]), sup |-> <<>>, tag |-> PrimSeq[i]]]
EnumLeaves == [i \in 1..Len(EnumBases) |->
                 [t |-> R(EnumName(EnumBases[i])), sup |-> <<EnumDef(EnumBases[i])>>,
                  tag |-> "enum:" \o EnumBases[i]]]
RecLeaves  == << [t |-> R("Inner"), sup |-> <<InnerDef>>, tag |-> "struct"],
                 [t |-> R("Empty"), sup |-> <<EmptyDef>>, tag |-> "emptystruct"],
                 [t |-> R("RoPt"),  sup |-> <<RoDef>>,    tag |-> "rostruct"],
                 [t |-> R("Msg"),   sup |-> <<MsgDef>>,   tag |-> "message"],
                 [t |-> R("EmptyMsg"), sup |-> <<EmptyMsgDef>>, tag |-> "emptymessage"],
                 [t |-> R("Un"),    sup |-> UnDefs,       tag |-> "union"],
                 \* a struct of fixed-width fields only, one of them an enum narrower than 4 bytes (a decoder may check its
                 \* arrays with one multiplication)
                 [t |-> R("Fx"),    sup |-> <<EnumDef("uint8"), FxDef>>, tag |-> "fixedstruct"] >>
Leaves == PrimLeaves \o EnumLeaves \o RecLeaves

\* shapes: container nestings over a leaf
Wrap(l, t, tag) == [t |-> t, sup |-> l.sup, tag |-> tag \o "<" \o l.tag \o ">"]

Depth0 == Leaves
Depth1 ==
     [i \in 1..Len(Leaves) |-> Wrap(Leaves[i], A(Leaves[i].t), "arr")]
  \o [i \in 1..Len(Leaves) |-> Wrap(Leaves[i], M("string", Leaves[i].t), "map[string]")]
  \o [i \in 1..Len(Leaves) |-> Wrap(Leaves[i], M("uint32", Leaves[i].t), "map[uint32]")]
  \o [i \in 1..Len(PrimSeq) |-> [t |-> M(PrimSeq[i], P("int32")), sup |-> <<>>,
                                 tag |-> "map[" \o PrimSeq[i] \o "]<int32>"]]
  \* float keys (incl. NaN) with values a decoder has to build or measure after storing them
  \o << [t |-> M("float32", P("string")), sup |-> <<>>, tag |-> "map[float32]<string>"],
        [t |-> M("float64", A(P("int32"))), sup |-> <<>>, tag |-> "map[float64].arr<int32>"],
        [t |-> M("float32", M("string", P("int32"))), sup |-> <<>>, tag |-> "map[float32].map[string]<int32>"],
        [t |-> M("float64", R("Inner")), sup |-> <<InnerDef>>, tag |-> "map[float64]<struct>"],
        [t |-> M("float32", R("Msg")), sup |-> <<MsgDef>>, tag |-> "map[float32]<message>"] >>
Depth2 ==
     [i \in 1..Len(Leaves) |-> Wrap(Leaves[i], A(A(Leaves[i].t)), "arr.arr")]
  \o [i \in 1..Len(Leaves) |-> Wrap(Leaves[i], M("string", A(Leaves[i].t)), "map[string].arr")]
  \o [i \in 1..Len(Leaves) |-> Wrap(Leaves[i], A(M("string", Leaves[i].t)), "arr.map[string]")]
  \o [i \in 1..Len(Leaves) |-> Wrap(Leaves[i], M("guid", M("uint16", Leaves[i].t)), "map[guid].map[uint16]")]

\* quick: all of depth 0 and 1 plus a Seed-selected eighth of depth 2; thorough: everything
Sampled(s, m) == SelectSeq([i \in 1..Len(s) |-> [x |-> s[i], i |-> i]],
                           LAMBDA e : (e.i + Seed) % m = 0)
Shapes ==
  IF Tier = "thorough" THEN Depth0 \o Depth1 \o Depth2
  ELSE Depth0 \o Depth1 \o [j \in 1..Len(Sampled(Depth2, 8)) |-> Sampled(Depth2, 8)[j].x]

-----------------------------------------------------------------------------
(* Contexts: where the shape sits *)
Ctxs == <<"struct", "rostruct", "message", "depmsg", "union", "tailstruct", "uniontail">>

StructFields(T) == << Fld("pre", P("bool")), Fld("f", T), Fld("post", P("uint8")) >>
MsgFields(T, dep) == << MFld(1, "pre", P("bool"), FALSE), MFld(2, "f", T, dep),
                        MFld(5, "post", P("uint8"), FALSE) >>

RootDefs(T, ctx) ==
  CASE ctx = "struct"   -> << [name |-> "Root", kind |-> "struct", ro |-> FALSE, fields |-> StructFields(T)] >>
    [] ctx = "tailstruct" -> << [name |-> "Root", kind |-> "struct", ro |-> FALSE,
                                  fields |-> << Fld("pre", P("bool")), Fld("f", T) >>] >>   \* the shape ends the buffer
    [] ctx = "uniontail" -> << [name |-> "Root", kind |-> "union", branches |-> << [idx |-> 4, n |-> "RootA"] >>],
                                 [name |-> "RootA", kind |-> "struct", ro |-> FALSE, inner |-> "Root",
                                  fields |-> << Fld("pre", P("bool")), Fld("f", T) >>] >>   \* the shape ends a length-limited body
    [] ctx = "rostruct" -> << [name |-> "Root", kind |-> "struct", ro |-> TRUE, fields |-> StructFields(T)] >>
    [] ctx = "message"  -> << [name |-> "Root", kind |-> "message", fields |-> MsgFields(T, FALSE)] >>
    [] ctx = "depmsg"   -> << [name |-> "Root", kind |-> "message", fields |-> MsgFields(T, TRUE)] >>
    [] ctx = "union"    -> << [name |-> "Root", kind |-> "union",
                               branches |-> << [idx |-> 1, n |-> "RootA"], [idx |-> 2, n |-> "RootB"], [idx |-> 9, n |-> "RootC"] >>],
                              [name |-> "RootA", kind |-> "struct", ro |-> FALSE, inner |-> "Root",
                               fields |-> StructFields(T)],
                              [name |-> "RootB", kind |-> "message", inner |-> "Root",
                               fields |-> << MFld(1, "f", T, FALSE) >>],
                              [name |-> "RootC", kind |-> "struct", ro |-> FALSE, inner |-> "Root", fields |-> <<>>] >>

\* records with TWO container fields: templates that declare helper variables per field
\* (length counters, loop indices) interact only when several such fields share a record
PairTypes == << [t |-> M("string", P("int32")), sup |-> <<>>, tag |-> "map"],
                [t |-> A(M("string", P("int32"))), sup |-> <<>>, tag |-> "arr.map"],
                [t |-> A(P("int32")), sup |-> <<>>, tag |-> "arr"],
                [t |-> M("string", A(P("int32"))), sup |-> <<>>, tag |-> "map.arr"],
                [t |-> P("string"), sup |-> <<>>, tag |-> "string"],
                [t |-> R("Inner"), sup |-> <<InnerDef>>, tag |-> "struct"],
                [t |-> M("uint32", R("Inner")), sup |-> <<InnerDef>>, tag |-> "map.struct"],
                [t |-> A(A(P("int32"))), sup |-> <<>>, tag |-> "arr.arr"] >>
NP == Len(PairTypes)
NPairSchemas == NP * NP * 2
PairA(k) == PairTypes[((k \div 2) % NP) + 1]
PairB(k) == PairTypes[(k \div (2 * NP)) + 1]
PairSup(k) == IF PairA(k).sup # <<>> THEN PairA(k).sup ELSE PairB(k).sup
PairDefs(k) ==
  IF k % 2 = 0
  THEN << [name |-> "Root", kind |-> "struct", ro |-> FALSE,
           fields |-> << Fld("f", PairA(k).t), Fld("g", PairB(k).t), Fld("post", P("uint8")) >>] >>
  ELSE << [name |-> "Root", kind |-> "message",
           fields |-> << MFld(1, "f", PairA(k).t, FALSE), MFld(2, "g", PairB(k).t, FALSE) >>] >>

\* "mixed" records: 3-5 fields whose shapes are drawn pseudo-randomly (by Seed) from the whole shape
\* universe, alternately a struct and a message - interactions between arbitrary shapes in one record
AllShapes == Depth0 \o Depth1 \o Depth2
MixHash(a, b) == (a * 7919 + b * 104729 + Seed * 31337 + ((a * b) % 251)) % 65521
NMix == IF Tier = "thorough" THEN 150 ELSE 48
MixN(m) == 3 + (m % 3)
MixShape(m, j) == AllShapes[(MixHash(m, j) % Len(AllShapes)) + 1]
RECURSIVE DedupeDefs(_, _)
DedupeDefs(ds, acc) == IF ds = <<>> THEN acc
                       ELSE IF \E i \in 1..Len(acc) : acc[i].name = ds[1].name THEN DedupeDefs(Tail(ds), acc)
                       ELSE DedupeDefs(Tail(ds), Append(acc, ds[1]))
MixSup(m) == DedupeDefs(FlattenSeq([j \in 1..MixN(m) |-> MixShape(m, j).sup]), <<>>)
MixDefs(m) ==
  IF m % 2 = 0
  THEN << [name |-> "Root", kind |-> "struct", ro |-> (m % 4 = 0),
           fields |-> [j \in 1..MixN(m) |-> Fld("f" \o ToString(j), MixShape(m, j).t)]] >>
  ELSE << [name |-> "Root", kind |-> "message",
           fields |-> [j \in 1..MixN(m) |-> MFld(2 * j - 1, "f" \o ToString(j), MixShape(m, j).t, m % 5 = 0 /\ j = 2)]] >>

\* "wide" records: long runs of fixed-width fields (sizes beyond one byte's range), many message fields
WideSpecs == << [kind |-> "struct", n |-> 33, p |-> "float64", tail |-> "string"],
                [kind |-> "struct", n |-> 18, p |-> "guid", tail |-> "int32"],
                [kind |-> "struct", n |-> 70, p |-> "int32", tail |-> "uint8"],
                [kind |-> "message", n |-> 40, p |-> "int64", tail |-> "string"],
                [kind |-> "struct", n |-> 260, p |-> "bool", tail |-> "uint16"],
                \* ... and such records NESTED in a record that goes on after them (fixed sizes that do not fit a byte)
                [kind |-> "neststruct", n |-> 33, p |-> "float64", tail |-> "string"],
                [kind |-> "nestmsg", n |-> 18, p |-> "guid", tail |-> "int32"],
                [kind |-> "nestarr", n |-> 70, p |-> "int32", tail |-> "uint8"],
                [kind |-> "nestunion", n |-> 65, p |-> "uint64", tail |-> "uint16"] >>
NWide == Len(WideSpecs)
WideDefs(w) ==
  LET ws == WideSpecs[w] IN
  LET big == [name |-> "Big", kind |-> "struct", ro |-> FALSE, fields |-> [j \in 1..ws.n |-> Fld("f" \o ToString(j), P(ws.p))]] IN
  IF ws.kind = "neststruct"
  THEN << big, [name |-> "Root", kind |-> "struct", ro |-> FALSE, fields |-> << Fld("pre", P("bool")), Fld("big", R("Big")), Fld("tail", P(ws.tail)) >>] >>
  ELSE IF ws.kind = "nestmsg"
  THEN << big, [name |-> "Root", kind |-> "message", fields |-> << MFld(1, "big", R("Big"), FALSE), MFld(2, "tail", P(ws.tail), FALSE) >>] >>
  ELSE IF ws.kind = "nestarr"
  THEN << big, [name |-> "Root", kind |-> "struct", ro |-> FALSE, fields |-> << Fld("bigs", A(R("Big"))), Fld("tail", P(ws.tail)) >>] >>
  ELSE IF ws.kind = "nestunion"
  THEN << big, [name |-> "Root", kind |-> "union", branches |-> << [idx |-> 1, n |-> "Wrap"] >>],
           [name |-> "Wrap", kind |-> "struct", ro |-> FALSE, inner |-> "Root", fields |-> << Fld("big", R("Big")), Fld("tail", P(ws.tail)) >>] >>
  ELSE IF ws.kind = "struct"
  THEN << [name |-> "Root", kind |-> "struct", ro |-> FALSE,
           fields |-> [j \in 1..ws.n |-> Fld("f" \o ToString(j), P(ws.p))] \o << Fld("tail", P(ws.tail)) >>] >>
  ELSE << [name |-> "Root", kind |-> "message",
           fields |-> [j \in 1..ws.n |-> MFld(j, "f" \o ToString(j), P(ws.p), FALSE)] \o << MFld(ws.n + 1, "tail", P(ws.tail), FALSE) >>] >>

NShapes == Len(Shapes)
NCtx == Len(Ctxs)
NBase == NShapes * NCtx
NPairEnd == NBase + NPairSchemas
\* "random" schemas: drawn by the harness (seeded; several definitions referring to each other, nesting
\* depth 3) and read from extra.ndjson; the specification supplies their values, bytes and judgements
Extra == ndJsonDeserialize("extra.ndjson")
NExtra == Len(Extra)
NMixEnd == NPairEnd + NMix
NWideEnd == NMixEnd + NWide
NSchemas == NWideEnd + NExtra
IsExtra(sid) == sid > NWideEnd
IsWide(sid) == sid > NMixEnd /\ sid <= NWideEnd
IsMix(sid) == sid > NPairEnd /\ sid <= NMixEnd
IsPair(sid) == sid > NBase /\ sid <= NPairEnd
ShapeOf(sid) == IF IsExtra(sid)
                THEN [t |-> P("bool"), sup |-> <<>>, tag |-> "random" \o ToString(sid - NWideEnd)]
                ELSE IF IsWide(sid)
                THEN [t |-> P(WideSpecs[sid - NMixEnd].p), sup |-> <<>>,
                      tag |-> "wide<" \o ToString(WideSpecs[sid - NMixEnd].n) \o "x" \o WideSpecs[sid - NMixEnd].p \o ">"]
                ELSE IF IsMix(sid)
                THEN [t |-> MixShape(sid - NPairEnd, 1).t, sup |-> MixSup(sid - NPairEnd),
                      tag |-> "mix" \o ToString(sid - NPairEnd) \o "<" \o MixShape(sid - NPairEnd, 1).tag \o "," \o MixShape(sid - NPairEnd, 2).tag \o ",...>"]
                ELSE IF IsPair(sid)
                THEN [t |-> PairA(sid - NBase - 1).t, sup |-> PairSup(sid - NBase - 1),
                      tag |-> "pair<" \o PairA(sid - NBase - 1).tag \o "," \o PairB(sid - NBase - 1).tag \o ">"]
                ELSE Shapes[((sid - 1) \div NCtx) + 1]
CtxOf(sid) == IF IsExtra(sid) THEN "random"
              ELSE IF IsWide(sid) THEN "wide" \o WideSpecs[sid - NMixEnd].kind
              ELSE IF IsMix(sid) THEN (IF (sid - NPairEnd) % 2 = 0 THEN "mixstruct" ELSE "mixmsg")
              ELSE IF IsPair(sid) THEN (IF (sid - NBase - 1) % 2 = 0 THEN "pairstruct" ELSE "pairmsg")
              ELSE Ctxs[((sid - 1) % NCtx) + 1]
SchemaOf(sid) == IF IsExtra(sid) THEN Extra[sid - NWideEnd].defs
                 ELSE IF IsWide(sid) THEN WideDefs(sid - NMixEnd)
                 ELSE IF IsMix(sid) THEN MixSup(sid - NPairEnd) \o MixDefs(sid - NPairEnd)
                 ELSE IF IsPair(sid) THEN PairSup(sid - NBase - 1) \o PairDefs(sid - NBase - 1)
                 ELSE ShapeOf(sid).sup \o RootDefs(ShapeOf(sid).t, CtxOf(sid))
RootT == R("Root")

-----------------------------------------------------------------------------
(* Values: "each boundary at least once", not the full product *)
Cyc(s, j) == s[((j - 1) % Len(s)) + 1]
MaxLen(ss) == IF ss = <<>> THEN 0
              ELSE CHOOSE m \in {Len(ss[i]) : i \in 1..Len(ss)} : \A i \in 1..Len(ss) : Len(ss[i]) <= m
Cap(s, n) == IF Len(s) <= n THEN s ELSE SubSeq(s, 1, n)

RECURSIVE Vals(_, _)
Vals(S, t) ==
  CASE t.k = "p" -> PrimVals(t.p)
    [] t.k = "a" ->
        LET ev == Vals(S, t.e) IN
        IF ev = <<>> THEN << <<>> >>
        ELSE << <<>>, <<ev[1]>>, <<ev[Len(ev)], ev[1]>> >>
             \o (IF Len(ev) > 2 THEN << Cap(ev, 6) >> ELSE <<>>)
             \o (IF Tier = "thorough" /\ t.e.k = "p" /\ t.e.p # "string"
                 THEN << [i \in 1..300 |-> Cyc(ev, i)] >> ELSE <<>>)
    [] t.k = "m" ->
        LET kv == KeyVals(t.key)  vv == Vals(S, t.v) IN
        << <<>>, << <<kv[1], vv[1]>> >>,
           << <<kv[1], vv[Len(vv)]>>, <<kv[2], vv[1]>> >>,
           << <<kv[2], Cyc(vv, 2)>>, <<kv[1], Cyc(vv, 3)>> >> >>
        \o (IF Len(kv) > 2 THEN << << <<kv[3], vv[Len(vv)]>>, <<kv[1], vv[1]>> >> >> ELSE <<>>)
    [] t.k = "r" ->
        LET d == Def(S, t.n) IN
        CASE d.kind = "enum" -> [i \in 1..Len(d.members) |-> d.members[i].val]
                                \o << <<2>> \o Z(PrimWidth[d.base] - 1) >>
          [] d.kind = "struct" ->
               IF d.fields = <<>> THEN << <<>> >>
               ELSE LET fv == [i \in 1..Len(d.fields) |-> Vals(S, d.fields[i].t)]
                        n == MaxLen(fv)
                    IN [j \in 1..n |-> [i \in 1..Len(d.fields) |-> Cyc(fv[i], j)]]
          [] d.kind = "message" ->
               LET nf == Len(d.fields)
                   fv == [i \in 1..nf |-> Vals(S, d.fields[i].t)]
                   n == MaxLen(fv)
                   all == [j \in 1..n |-> [i \in 1..nf |-> <<d.fields[i].idx, Cyc(fv[i], j)>>]]
                   \* every single field alone, every field missing, nothing
                   single == [i \in 1..nf |-> << <<d.fields[i].idx, Cyc(fv[i], i + 1)>> >>]
                   without == IF nf < 2 THEN <<>>
                              ELSE [i \in 1..nf |-> SelectSeq(Cyc(all, i + 2), LAMBDA pr : pr[1] # d.fields[i].idx)]
               IN all \o single \o without \o << <<>> >>
          [] d.kind = "union" ->
               FlattenSeq([i \in 1..Len(d.branches) |->
                   LET bv == Cap(Vals(S, R(d.branches[i].n)), 8)
                   IN [j \in 1..Len(bv) |-> <<d.branches[i].idx, bv[j]>>]])

-----------------------------------------------------------------------------
(* Structure-aware corruptions of an encoding e with layout lay (C07):      *)
(* every length/count field set to boundary values, every control byte      *)
(* (message index, terminator, union discriminator) and the first byte of   *)
(* every scalar/enum/key replaced, chunks removed or duplicated at element  *)
(* boundaries.                                                              *)
Starts(lay) == SelectSeq([i \in 1..Len(lay) |-> i], LAMBDA i : IsStart(lay[i]))
RoleAt(lay, i) == RoleOf(lay[i])
IsCount(r) == r \in {"str.len", "arr.count", "map.count", "msg.len", "union.len"}
IsControl(r) == r \in {"msg.idx", "msg.term", "union.disc"}
SetAt(e, i, bs) == [j \in 1..Len(e) |-> IF j >= i /\ j < i + Len(bs) THEN bs[j - i + 1] ELSE e[j]]
CountVals(e, i) ==
  LET n == U32(e, i - 1) IN
  << <<0,0,0,0>>, <<1,0,0,0>>, <<0,0,16,0>>, <<0,0,0,128>>, <<255,255,255,255>>, <<255,255,255,127>> >>
  \o (IF n < 1000000 THEN << LE32(n + 1) >> ELSE <<>>)
  \o (IF n > 0 /\ n < 1000000 THEN << LE32(n - 1) >> ELSE <<>>)
ByteVals(b) == SelectSeq(<<0, 1, 2, 127, 128, 255, (b + 1) % 256>>, LAMBDA x : x # b)

Mutations(e, lay) ==
  LET st == Starts(lay)
      counts == SelectSeq(st, LAMBDA i : IsCount(RoleAt(lay, i)))
      ctrls == SelectSeq(st, LAMBDA i : ~IsCount(RoleAt(lay, i)) /\ RoleAt(lay, i) # "str.body")
      cm == FlattenSeq([j \in 1..Len(counts) |->
               LET cv == CountVals(e, counts[j]) IN [k \in 1..Len(cv) |-> SetAt(e, counts[j], cv[k])]])
      bm == FlattenSeq([j \in 1..Len(ctrls) |->
               LET bv == IF IsControl(RoleAt(lay, ctrls[j])) THEN ByteVals(e[ctrls[j]]) ELSE <<255, 0>>
               IN [k \in 1..Len(bv) |-> SetAt(e, ctrls[j], <<bv[k]>>)]])
      \* remove the chunk between two consecutive element starts; duplicate it
      cut == [j \in 1..(IF Len(st) > 1 THEN Len(st) - 1 ELSE 0) |->
                SubSeq(e, 1, st[j] - 1) \o SubSeq(e, st[j + 1], Len(e))]
      dup == [j \in 1..(IF Len(st) > 1 THEN Len(st) - 1 ELSE 0) |->
                SubSeq(e, 1, st[j + 1] - 1) \o SubSeq(e, st[j], Len(e))]
  IN cm \o bm \o cut \o dup \o << e \o <<0>>, e \o e >>

-----------------------------------------------------------------------------
(* Generator option sets (C09).  Index 1 is the default (empty) set. *)
OptNames == <<"AlwaysUsePointerReceivers", "PrivateDefinitions", "GenerateFieldTags",
              "GenerateUnsafeMethods", "SharedMemoryStrings">>
Bit(n, i) == (n \div (2 ^ (i - 1))) % 2 = 1
OptSetOfMask(m) == SelectSeq(OptNames, LAMBDA o : \E i \in 1..5 : OptNames[i] = o /\ Bit(m, i))
AllOptMasks == [i \in 1..32 |-> i - 1]
\* a pairwise-covering subset of the 2^5 masks (every pair of options sees all 4 combinations)
PairwiseMasks == <<0, 31, 7, 25, 10, 21, 14, 19, 28, 3>>
OptMasks == IF Tier = "thorough" THEN AllOptMasks ELSE PairwiseMasks
=============================================================================
