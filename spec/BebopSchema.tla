---------------------------- MODULE BebopSchema ----------------------------
(***************************************************************************)
(* Abstract syntax of a .bop file, its token stream, and its meaning (the   *)
(* File that ReadFile must return) - C11, C16, C17, C13, C10.               *)
(*                                                                         *)
(*  item ::= [k |-> "import", path]                                          *)
(*         | [k |-> "const", t, name, lit, doc]                              *)
(*         | [k |-> "enum", name, base ("" = default uint32), flags,         *)
(*                  members : Seq([name, lit, val, dep, doc]), doc]          *)
(*         | [k |-> "struct", name, ro, op, opval, fields, doc, asp]         *)
(*         | [k |-> "message", name, op, opval, fields, doc, asp]            *)
(*         | [k |-> "union", name, op, opval, branches, doc]                 *)
(*  field  ::= [name, t, idx, dep, doc, tags, trail]   (idx = 0 in structs)  *)
(*  branch ::= [idx, def : struct|message item, dep, doc]                    *)
(*  doc    ::= Seq([style |-> "line"|"block", text])                         *)
(*  dep    ::= "" (not deprecated) or the deprecation message                *)
(*  op     ::= "" | literal text of the opcode; opval = its 4 LE bytes       *)
(*  asp    ::= "post" (T[]) | "pre" (array[T]) spelling of arrays            *)
(*                                                                         *)
(* Tokens(items) is a sequence of strings; two are special: "\n" a          *)
(* mandatory line break (after a line comment), "~" a place where the        *)
(* layout may break the line, leave a blank line, or not.                    *)
(***************************************************************************)
EXTENDS BebopWire

NL == "\n"
SB == "~"     \* soft break: nothing/space, a line break, or a blank line
SL == "^"     \* soft line: nothing/space or a single line break (after attributes and block comments)
ST == "#"     \* soft top-level break: between definitions - like SB, but a layout may keep the next definition on the same line
SRO == "<ro>"   \* after the readonly modifier: a space - or, in the layout whose acceptance is left open, a line break
SA == "%"     \* soft attribute break: nothing/space, a line break, or an EMPTY line between an attribute and what it annotates

NoDoc == <<>>
LineDoc(s) == << [style |-> "line", text |-> s] >>
BlockDoc(s) == << [style |-> "block", text |-> s] >>

-----------------------------------------------------------------------------
(* Tokens *)
\* a doc comment starts on a line of its own: a comment that follows a field on the
\* same line is that field's trailing comment, not the next field's documentation
DocTokens(doc) ==
  FlattenSeq([i \in 1..Len(doc) |->
     IF doc[i].style = "line" THEN << NL, "//" \o doc[i].text, NL >>
     ELSE << NL, "/*" \o doc[i].text \o "*/", SL >>])

RECURSIVE TypeTokens(_, _)
TypeTokens(t, asp) ==
  CASE t.k = "p" -> << t.p >>
    [] t.k = "r" -> << t.n >>
    [] t.k = "a" -> IF asp = "pre" THEN << "array", "[" >> \o TypeTokens(t.e, asp) \o << "]" >>
                    ELSE TypeTokens(t.e, asp) \o << "[", "]" >>
    [] t.k = "m" -> << "map", "[", t.key, "," >> \o TypeTokens(t.v, asp) \o << "]" >>

Quote(s) == "\"" \o s \o "\""
\* dep = "" : not deprecated; otherwise the deprecation message - EmptyDep stands for the empty message, [deprecated("")]
EmptyDep == "@EMPTY"
DepMsg(dep) == IF dep = EmptyDep THEN "" ELSE dep
\* after an attribute the layout may leave the line, or (when no documentation is pending, which an empty
\* line would detach) an empty line: SA
DepTokens(dep, bare) == IF dep = "" THEN <<>>
                        ELSE << "[", "deprecated", "(", Quote(DepMsg(dep)), ")", "]", IF bare THEN SA ELSE SL >>
TagTokens(tags) == FlattenSeq([i \in 1..Len(tags) |-> << NL, "//[tag(" \o tags[i].text \o ")]", NL >>])
TrailTokens(f) == IF f.trail = "" THEN <<>> ELSE << "//" \o f.trail, NL >>

\* the deprecation attribute may stand above the documentation and tag lines ("attrfirst") or below them
AttrFirst(x) == "attrfirst" \in DOMAIN x /\ x.attrfirst
FieldTokens(f, isMsg, asp) ==
  << SB >> \o (IF AttrFirst(f) THEN DepTokens(f.dep, FALSE) \o DocTokens(f.doc) \o TagTokens(f.tags)
               ELSE DocTokens(f.doc) \o TagTokens(f.tags) \o DepTokens(f.dep, f.doc = NoDoc /\ f.tags = <<>>))
  \o (IF isMsg THEN << IF "idxlit" \in DOMAIN f THEN f.idxlit ELSE ToString(f.idx), "->" >> ELSE <<>>)
  \o TypeTokens(f.t, asp) \o << f.name, ";" >> \o TrailTokens(f)

OpTokens(op, bare) == IF op = "" THEN <<>> ELSE << "[", "opcode", "(", op, ")", "]", IF bare THEN SA ELSE SL >>

RECURSIVE DefTokens(_)
DefTokens(d) ==
  CASE d.k = "struct" ->
         (IF d.ro THEN << "readonly", SRO >> ELSE <<>>) \o << "struct", d.name, "{" >>
         \o FlattenSeq([i \in 1..Len(d.fields) |-> FieldTokens(d.fields[i], FALSE, d.asp)]) \o << SB, "}" >>
    [] d.k = "message" ->
         << "message", d.name, "{" >>
         \o FlattenSeq([i \in 1..Len(d.fields) |-> FieldTokens(d.fields[i], TRUE, d.asp)]) \o << SB, "}" >>
    [] d.k = "union" ->
         << "union", d.name, "{" >>
         \o FlattenSeq([i \in 1..Len(d.branches) |->
               << SB >> \o (IF AttrFirst(d.branches[i]) THEN DepTokens(d.branches[i].dep, FALSE) \o DocTokens(d.branches[i].doc)
                            ELSE DocTokens(d.branches[i].doc) \o DepTokens(d.branches[i].dep, d.branches[i].doc = NoDoc))
               \o << ToString(d.branches[i].idx), "->" >> \o DefTokens(d.branches[i].def)
               \* a member may be followed by a semicolon and by a remark on its line
               \o (IF "semi" \in DOMAIN d.branches[i] /\ d.branches[i].semi THEN << ";" >> ELSE <<>>)
               \o (IF "trail" \in DOMAIN d.branches[i] /\ d.branches[i].trail # "" THEN << "//" \o d.branches[i].trail, NL >> ELSE << SL >>)])
         \o << SB, "}" >>
    [] d.k = "enum" ->
         << "enum", d.name >> \o (IF d.base = "" THEN <<>> ELSE << ":", d.base >>) \o << "{" >>
         \o FlattenSeq([i \in 1..Len(d.members) |->
               << SB >> \o (IF AttrFirst(d.members[i]) THEN DepTokens(d.members[i].dep, FALSE) \o DocTokens(d.members[i].doc)
                            ELSE DocTokens(d.members[i].doc) \o DepTokens(d.members[i].dep, d.members[i].doc = NoDoc))
               \o << d.members[i].name, "=" >> \o d.members[i].lit \o << ";" >>])
         \o << SB, "}" >>
    [] d.k = "const" -> << "const", d.t, d.name, "=", d.lit, ";" >>
    [] d.k = "import" -> << "import", IF "lit" \in DOMAIN d THEN d.lit ELSE Quote(d.path) >>

ItemTokens(d) ==
  LET doc == IF d.k = "import" THEN <<>> ELSE DocTokens(d.doc)
      attrs(bare) == (IF d.k \in {"struct", "message", "union"} THEN OpTokens(d.op, bare) ELSE <<>>)
                     \o (IF d.k = "enum" /\ d.flags THEN << "[", "flags", "]", IF bare THEN SA ELSE SL >> ELSE <<>>)
  IN << ST >> \o (IF AttrFirst(d) THEN attrs(FALSE) \o doc ELSE doc \o attrs(d.k # "import" /\ d.doc = NoDoc))
     \* a record or enum definition ends with its brace; an import or const ends its line
     \o DefTokens(d) \o (IF d.k \in {"import", "const"} THEN << NL >> ELSE <<>>)

Tokens(items) == FlattenSeq([i \in 1..Len(items) |-> ItemTokens(items[i])])

-----------------------------------------------------------------------------
(* Meaning: the File that the text denotes *)
RECURSIVE JoinDoc(_)
JoinDoc(doc) == IF doc = <<>> THEN ""
                ELSE IF Len(doc) = 1 THEN doc[1].text
                ELSE doc[1].text \o "\n" \o JoinDoc(Tail(doc))

\* a field's comment also lists its tag comments (they are line comments)
FieldDoc(f) == JoinDoc(f.doc \o [i \in 1..Len(f.tags) |-> [style |-> "line", text |-> "[tag(" \o f.tags[i].text \o ")]"]])

FieldOf(f) == [name |-> f.name, t |-> f.t, idx |-> f.idx, dep |-> f.dep # "", depmsg |-> DepMsg(f.dep),
               doc |-> FieldDoc(f), tags |-> [i \in 1..Len(f.tags) |-> f.tags[i].tag]]

SortByIdx(s) == SortSeq(s, LAMBDA a, b : a.idx < b.idx)

\* AS-IS (deviation "union_branch_doc_eaten"): after a union branch the pinned parser treats
\* the comments that follow - all block comments, then one line comment - as end-of-line
\* comments of that branch, even when they stand on lines of their own before the next branch
RECURSIVE DropBlocks(_)
DropBlocks(doc) == IF doc # <<>> /\ doc[1].style = "block" THEN DropBlocks(Tail(doc)) ELSE doc
EatenDoc(doc) == LET r == DropBlocks(doc) IN IF r # <<>> /\ r[1].style = "line" THEN Tail(r) ELSE r

RECURSIVE DefOfX(_, _)
DefOf(d) == DefOfX(d, FALSE)
DefOfX(d, asis) ==
  CASE d.k = "struct" -> [kind |-> "struct", name |-> d.name, ro |-> d.ro, opcode |-> d.opval, doc |-> JoinDoc(d.doc),
                          fields |-> [i \in 1..Len(d.fields) |-> FieldOf(d.fields[i])]]
    [] d.k = "message" -> [kind |-> "message", name |-> d.name, opcode |-> d.opval, doc |-> JoinDoc(d.doc),
                           fields |-> SortByIdx([i \in 1..Len(d.fields) |-> FieldOf(d.fields[i])])]
    [] d.k = "union" -> [kind |-> "union", name |-> d.name, opcode |-> d.opval, doc |-> JoinDoc(d.doc),
                         branches |-> SortByIdx([i \in 1..Len(d.branches) |->
                            [idx |-> d.branches[i].idx, dep |-> d.branches[i].dep # "", depmsg |-> DepMsg(d.branches[i].dep),
                             def |-> DefOfX([d.branches[i].def EXCEPT !.doc = IF asis /\ i > 1 THEN EatenDoc(d.branches[i].doc)
                                                                                 ELSE d.branches[i].doc], asis)]])]
    [] d.k = "enum" -> [kind |-> "enum", name |-> d.name, base |-> IF d.base = "" THEN "uint32" ELSE d.base,
                        unsigned |-> d.base \notin {"int16", "int32", "int64"}, doc |-> JoinDoc(d.doc),
                        options |-> [i \in 1..Len(d.members) |->
                            [name |-> d.members[i].name, val |-> d.members[i].val, dep |-> d.members[i].dep # "",
                             depmsg |-> DepMsg(d.members[i].dep), doc |-> JoinDoc(d.members[i].doc)]]]
    [] d.k = "const" -> [kind |-> "const", t |-> d.t, name |-> d.name, value |-> d.lit, doc |-> JoinDoc(d.doc)]

Sel(items, kind, asis) == LET s == SelectSeq(items, LAMBDA d : d.k = kind) IN [i \in 1..Len(s) |-> DefOfX(s[i], asis)]

FileOfX(items, asis) ==
  [imports |-> LET s == SelectSeq(items, LAMBDA d : d.k = "import") IN [i \in 1..Len(s) |-> s[i].path],
   consts |-> Sel(items, "const", asis), enums |-> Sel(items, "enum", asis), structs |-> Sel(items, "struct", asis),
   messages |-> Sel(items, "message", asis), unions |-> Sel(items, "union", asis)]
FileOf(items) == FileOfX(items, FALSE)

\* the same meaning with every comment erased (what formatting must preserve, C16)
RECURSIVE StripDef(_)
StripDef(d) ==
  CASE d.kind = "struct" -> [d EXCEPT !.doc = "", !.fields = [i \in 1..Len(d.fields) |-> [d.fields[i] EXCEPT !.doc = "", !.tags = <<>>]]]
    [] d.kind = "message" -> [d EXCEPT !.doc = "", !.fields = [i \in 1..Len(d.fields) |-> [d.fields[i] EXCEPT !.doc = "", !.tags = <<>>]]]
    [] d.kind = "union" -> [d EXCEPT !.doc = "", !.branches = [i \in 1..Len(d.branches) |-> [d.branches[i] EXCEPT !.def = StripDef(d.branches[i].def)]]]
    [] d.kind = "enum" -> [d EXCEPT !.doc = "", !.options = [i \in 1..Len(d.options) |-> [d.options[i] EXCEPT !.doc = ""]]]
    [] d.kind = "const" -> [d EXCEPT !.doc = ""]
StripFile(f) == [f EXCEPT !.consts = [i \in 1..Len(f.consts) |-> StripDef(f.consts[i])],
                          !.enums = [i \in 1..Len(f.enums) |-> StripDef(f.enums[i])],
                          !.structs = [i \in 1..Len(f.structs) |-> StripDef(f.structs[i])],
                          !.messages = [i \in 1..Len(f.messages) |-> StripDef(f.messages[i])],
                          !.unions = [i \in 1..Len(f.unions) |-> StripDef(f.unions[i])]]
=============================================================================
