----------------------------- MODULE Trace_Wire -----------------------------
(***************************************************************************)
(* Trace validation for the wire engine: every event recorded from the     *)
(* REAL generated code (one event per API call) is judged against the      *)
(* ideal specification BebopWire.  What the ideal spec does not explain is  *)
(* offered to the as-is model (the named deviations in Devs, generated from *)
(* the open entries of known_findings.json); what neither explains is a     *)
(* violation.  The behaviour always runs to the end of the trace so that    *)
(* everything after a rejected event is still checked.                      *)
(***************************************************************************)
EXTENDS BebopWire, AsIs, Json

CONSTANTS Prop,    \* the property being decided: "C01", "C02", ...
          Devs,    \* set of named deviations of the as-is model
          CidBase  \* cases.ndjson holds the cases CidBase+1, CidBase+2, ... (a trace is validated in shards of whole cases)

Schemas == ndJsonDeserialize("schemas.ndjson")
Cases   == ndJsonDeserialize("cases.ndjson")
Trace   == ndJsonDeserialize("events.ndjson")

VARIABLES l, nOK, nKnown, nViol, nNA,
          lastU      \* the most recent UnmarshalBebop observation (C09: MustUnmarshalBebop must agree with it)
vars == <<l, nOK, nKnown, nViol, nNA, lastU>>

Has(e, f) == f \in DOMAIN e
OutOf(e) == IF Has(e, "out") THEN e.out ELSE <<>>
ValOf(e) == IF Has(e, "val") THEN e.val ELSE <<>>

CaseOf(e)   == Cases[e.cid - CidBase]
SchemaOf(c) == Schemas[c.si].defs
TypeOf(c)   == R(c.root)

\* a value with every date leaf replaced by zero (structure and everything else kept)
Zero8 == [i \in 1..8 |-> 0]
RECURSIVE BlankDates(_, _, _)
BlankDates(S, t, v) ==
  CASE t.k = "p" -> IF t.p = "date" THEN Zero8 ELSE v
    [] t.k = "a" -> [i \in 1..Len(v) |-> BlankDates(S, t.e, v[i])]
    [] t.k = "m" -> [i \in 1..Len(v) |-> << (IF t.key = "date" THEN Zero8 ELSE v[i][1]), BlankDates(S, t.v, v[i][2]) >>]
    [] t.k = "r" ->
        LET d == Def(S, t.n) IN
        CASE d.kind = "enum" -> v
          [] d.kind = "struct" -> [i \in 1..Len(d.fields) |-> BlankDates(S, d.fields[i].t, v[i])]
          [] d.kind = "message" -> [i \in 1..Len(v) |-> IF MsgHas(d, v[i][1]) THEN << v[i][1], BlankDates(S, MsgField(d, v[i][1]).t, v[i][2]) >> ELSE v[i]]
          [] d.kind = "union" -> IF Len(v) = 2 /\ UnionHas(d, v[1]) THEN << v[1], BlankDates(S, R(Branch(d, v[1]).n), v[2]) >> ELSE v
InOf(e)     == IF Has(e, "in") THEN e.in ELSE CaseOf(e).enc

\* out is a conformant encoding of v (any order of map entries)
IsEncodingOf(S, t, v, out) ==
  LET r == DecTop(S, t, out) IN
  /\ r.ok
  /\ r.at = Len(out)
  /\ Canon(S, t, r.v) = Norm(S, t, v)
  /\ Enc(S, t, r.v) = out

RECURSIVE HasMap(_, _)
HasMap(S, t) ==
  CASE t.k = "p" -> FALSE
    [] t.k = "a" -> HasMap(S, t.e)
    [] t.k = "m" -> TRUE
    [] t.k = "r" ->
        LET d == Def(S, t.n) IN
        CASE d.kind = "enum" -> FALSE
          [] d.kind = "struct" -> \E i \in 1..Len(d.fields) : HasMap(S, d.fields[i].t)
          [] d.kind = "message" -> \E i \in 1..Len(d.fields) : HasMap(S, d.fields[i].t)
          [] d.kind = "union" -> \E i \in 1..Len(d.branches) : HasMap(S, R(d.branches[i].n))

-----------------------------------------------------------------------------
(* Judgements.  Each returns [v |-> "OK"|"NA"|"KNOWN"|"VIOLATION", why, dev] *)
OKv == [v |-> "OK", why |-> "", dev |-> ""]
NAv == [v |-> "NA", why |-> "", dev |-> ""]
Bad(why) == [v |-> "VIOLATION", why |-> why, dev |-> ""]
Known(dev, why) == [v |-> "KNOWN", why |-> why, dev |-> dev]

FirstBad(checks) ==  \* checks: sequence of <<condition, why>>; first failing one
  IF \A i \in 1..Len(checks) : checks[i][1] THEN OKv
  ELSE Bad(checks[CHOOSE i \in 1..Len(checks) : ~checks[i][1] /\ \A j \in 1..(i-1) : checks[j][1]][2])

\* C02: all encoders emit the same bytes; Size() exact; MarshalBebopTo stays inside
JudgeC02(e) ==
  LET c == CaseOf(e)  S == SchemaOf(c)  t == TypeOf(c)  sz == Size(S, t, c.v) IN
  CASE e.ev = "size" ->
        FirstBad(<< <<e.res = "nil", "Size() did not return normally: " \o e.res>>,
                    <<e.res # "nil" \/ e.n = sz, "Size() is not the length of the encoding">> >>)
    [] e.ev = "encx" ->
        \* a value with times off the 100ns grid: whatever the rounding, the three encoders agree and Size() is their length
        \* (records with maps are left out: their encoders may legitimately order the entries differently)
        IF HasMap(S, t) THEN NAv ELSE
        FirstBad(<< <<e.res = "nil", "an encoder fails on a time that is not a multiple of 100ns: " \o e.res>>,
                    <<e.res # "nil" \/ (e.outs[1] = e.outs[2] /\ e.outs[2] = e.outs[3]),
                      "the encoders disagree on a time that is not a multiple of 100ns">>,
                    <<e.res # "nil" \/ Len(e.outs[1]) = e.n, "Size() is not the encoded length for a time that is not a multiple of 100ns">> >>)
    [] e.ev = "enc" ->
        LET out == OutOf(e)
            ideal == FirstBad(<<
              <<e.res = "nil", e.api \o " did not return normally: " \o e.res>>,
              <<e.res # "nil" \/ Len(out) = sz, e.api \o ": number of bytes differs from Size()">>,
              <<e.res # "nil" \/ Len(out) # sz \/ IsEncodingOf(S, t, c.v, out), e.api \o ": bytes are not an encoding of the value">>,
              <<e.res # "nil" \/ e.api # "MarshalBebopTo" \/ e.ret = sz, "MarshalBebopTo does not return Size()">>,
              <<e.res # "nil" \/ e.api # "MarshalBebopTo" \/ e.tail_ok, "MarshalBebopTo wrote outside the first Size() bytes">> >>)
        IN IF ideal.v = "OK" THEN ideal
           ELSE IF AsIsExplainsEnc(Devs, S, t, c, e) # "" THEN Known(AsIsExplainsEnc(Devs, S, t, c, e), ideal.why)
           ELSE ideal
    [] OTHER -> NAv

\* C03: bytes are exactly the reference encoding; decoders accept the reference encodings
JudgeC03(e) ==
  LET c == CaseOf(e)  S == SchemaOf(c)  t == TypeOf(c) IN
  CASE e.ev = "enc" ->
        LET out == OutOf(e)
            ideal == FirstBad(<<
              <<e.res = "nil", e.api \o " did not return normally: " \o e.res>>,
              <<e.res # "nil" \/ HasMap(S, t) \/ out = c.enc, e.api \o ": bytes differ from the reference encoding">>,
              <<e.res # "nil" \/ ~HasMap(S, t) \/ IsEncodingOf(S, t, c.v, out),
                e.api \o ": bytes are not a conformant encoding of the value">> >>)
        IN IF ideal.v = "OK" THEN ideal
           ELSE IF AsIsExplainsEnc(Devs, S, t, c, e) # "" THEN Known(AsIsExplainsEnc(Devs, S, t, c, e), ideal.why)
           ELSE ideal
    [] e.ev = "dec" /\ e.api # "MustUnmarshalBebop" /\ "ref" \in Range(e.srcs) ->
        FirstBad(<<
          <<e.res = "nil", e.api \o " rejects a conformant encoding: " \o e.res>>,
          <<e.res # "nil" \/ ValOf(e) = Norm(S, t, c.v), e.api \o " decodes a conformant encoding to a different value">>,
          <<e.res # "nil" \/ ~Has(e, "consumed") \/ e.consumed = Len(c.enc), "DecodeBebop consumed a different number of bytes">> >>)
    [] OTHER -> NAv

\* payloads beyond buffer sizes: the value's first string / byte array stretched to e.k bytes by the harness (TLC does
\* not enumerate payloads of that size); the encoding is the real encoder's (e.n bytes = Size()); the statement is that
\* of a stream record (C05) and of the round trip (C01)
JudgeBig(e) ==
  LET what == "a record with a payload of " \o ToString(e.k) \o " bytes on a stream (" \o e.style \o "): " IN
  IF e.style = "encode" THEN Bad(what \o "MarshalBebop fails or does not produce Size() bytes")
  ELSE FirstBad(<<
       <<e.res = "nil", what \o e.api \o " returned " \o e.res>>,
       <<e.res # "nil" \/ e.consumed = e.n, what \o "consumed a number of bytes different from the record's length">>,
       <<e.res # "nil" \/ e.tail_ok, what \o "decoded value differs from the value written">> >>)

\* C01: every encoder paired with every decoder returns the value
JudgeC01(e) ==
  LET c == CaseOf(e)  S == SchemaOf(c)  t == TypeOf(c) IN
  CASE e.ev = "enc" ->
        IF e.res = "nil" THEN OKv
        ELSE IF AsIsExplainsEnc(Devs, S, t, c, e) # "" THEN Known(AsIsExplainsEnc(Devs, S, t, c, e), "encoder failed")
        ELSE Bad(e.api \o " did not return normally: " \o e.res)
    [] e.ev = "dec" /\ Range(e.srcs) # {"ref"} ->
        LET ideal == FirstBad(<<
              <<e.res = "nil", e.api \o " fails on bytes produced by " \o ToString(e.srcs) \o ": " \o e.res>>,
              <<e.res # "nil" \/ ValOf(e) = Norm(S, t, c.v),
                e.api \o " of bytes produced by " \o ToString(e.srcs) \o " is not the encoded value">> >>)
        IN IF ideal.v = "OK" THEN ideal
           ELSE IF AsIsExplainsDec(Devs, S, t, c, e) # "" THEN Known(AsIsExplainsDec(Devs, S, t, c, e), ideal.why)
           ELSE ideal
    [] e.ev = "bigrec" -> JudgeBig(e)
    [] OTHER -> NAv

\* C09: generator options never change the wire.  The specification has no
\* notion of options: under every option set the bytes must be the reference
\* bytes and every decoder (incl. MustUnmarshalBebop) must return the value.
JudgeC09(e) ==
  LET c == CaseOf(e)  S == SchemaOf(c)  t == TypeOf(c) IN
  CASE e.ev = "enc" -> JudgeC03(e)
    [] e.ev = "dec" /\ Has(c, "want") ->
        \* bytes of a newer schema version (evolve universe): the unchecked decoder must agree with the checked one
        IF e.api # "MustUnmarshalBebop" THEN NAv
        ELSE IF lastU.cid # e.cid \/ lastU.reuse \/ lastU.in # InOf(e) \/ lastU.res # "nil" THEN NAv
        ELSE FirstBad(<<
               <<e.res = "nil", "MustUnmarshalBebop fails on a valid encoding that UnmarshalBebop accepts: " \o e.res>>,
               <<e.res # "nil" \/ ValOf(e) = lastU.val, "MustUnmarshalBebop disagrees with UnmarshalBebop on a valid encoding (bytes of a peer's schema version)">> >>)
    [] e.ev = "redec" ->
        \* a receiver that already held another value: the unchecked decoder must leave what the checked one leaves
        IF e.api # "MustUnmarshalBebop" THEN NAv
        ELSE IF lastU.cid # e.cid \/ ~lastU.reuse \/ lastU.res # "nil" THEN NAv
        ELSE FirstBad(<<
               <<e.res = "nil", "MustUnmarshalBebop into a used receiver fails where UnmarshalBebop succeeds: " \o e.res>>,
               <<e.res # "nil" \/ ValOf(e) = lastU.val,
                 "MustUnmarshalBebop into a receiver that held another value leaves a different value than UnmarshalBebop does (options " \o ToString(c.opts) \o ")">> >>)
    [] e.ev = "dec" ->
        FirstBad(<<
          <<e.res = "nil", e.api \o " fails on a valid encoding under options " \o ToString(c.opts) \o ": " \o e.res>>,
          <<e.res # "nil" \/ ValOf(e) = Norm(S, t, c.v),
            e.api \o " under options " \o ToString(c.opts) \o " decodes a valid encoding to a different value">>,
          <<e.res # "nil" \/ ~Has(e, "consumed") \/ e.consumed = Len(InOf(e)), "DecodeBebop consumed a different number of bytes">> >>)
    [] OTHER -> NAv

\* C06: every strict prefix of a valid encoding is an error - no crash, no hang,
\* no allocation out of proportion to the input
JudgeC06(e) ==
  LET c == CaseOf(e)  S == SchemaOf(c)  t == TypeOf(c) IN
  CASE e.ev = "cut" ->
        IF e.res = "err" /\ ~e.big THEN OKv
        ELSE LET in == SubSeq(c.enc, 1, e.k)
                 why == e.api \o " on a strict prefix: " \o
                        (IF e.res = "err" THEN "allocation out of proportion to the input"
                         ELSE IF e.res = "nil" THEN "no error" ELSE e.res)
                        \o " (input ends in " \o RoleOf(c.lay[e.k + 1]) \o ")"
                 dev == IF e.api = "UnmarshalBebop" THEN AsIsByteFailure(Devs, S, t, in)
                        ELSE AsIsStreamFailure(Devs, S, t, in)
             IN IF dev # "" THEN Known(dev, why) ELSE Bad(why)
    [] OTHER -> NAv

\* C07: arbitrary bytes: nil or an error, never a panic, a hang or a runaway allocation
JudgeC07(e) ==
  LET c == CaseOf(e)  S == SchemaOf(c)  t == TypeOf(c) IN
  CASE e.ev = "corrupt" ->
        IF e.res \in {"nil", "err"} /\ ~e.big THEN OKv
        ELSE LET in == c.inputs[e.idx + 1]
                 why == e.api \o " on corrupt input: " \o
                        (IF e.res \in {"nil", "err"} THEN "allocation out of proportion to the input" ELSE e.res)
                 dev == IF e.api = "UnmarshalBebop" THEN AsIsByteFailure(Devs, S, t, in)
                        ELSE AsIsStreamFailure(Devs, S, t, in)
             IN IF dev # "" THEN Known(dev, why) ELSE Bad(why)
    [] OTHER -> NAv

\* C08: a failing reader or writer always surfaces as an error; an EncodeBebop
\* that returns nil has written exactly an encoding of the value
JudgeC08(e) ==
  LET c == CaseOf(e)  S == SchemaOf(c)  t == TypeOf(c) IN
  CASE e.ev = "rfault" ->
        IF e.res = "err" /\ ~e.big THEN OKv
        ELSE LET why == "DecodeBebop with a reader failing (" \o e.kind \o ", " \o e.style \o ") before the end of the record: " \o
                        (IF e.res = "err" THEN "allocation out of proportion" ELSE IF e.res = "nil" THEN "no error" ELSE e.res)
                 dev == AsIsReaderFault(Devs, S, t, c, e)
             IN IF dev # "" THEN Known(dev, why) ELSE Bad(why)
    [] e.ev = "wfault" ->
        IF e.res = "err" /\ ~e.big THEN OKv
        ELSE Bad("EncodeBebop with a Write call failing (" \o e.kind \o ", " \o e.style \o "): " \o
                 (IF e.res = "err" THEN "allocation out of proportion" ELSE IF e.res = "nil" THEN "no error" ELSE e.res))
    [] e.ev = "wcount" ->
        FirstBad(<< <<e.res = "nil", "EncodeBebop to a healthy writer: " \o e.res>>,
                    <<e.res # "nil" \/ IsEncodingOf(S, t, c.v, OutOf(e)), "EncodeBebop returned nil but did not write an encoding of the value">> >>)
    [] OTHER -> NAv

\* C05: each DecodeBebop consumes exactly one record, whatever the fragmentation
RecVal(c, i) == IF i = 0 THEN c.v ELSE c.seq[i]
RecEnc(c, i) == IF i = 0 THEN c.enc ELSE c.seqenc[i]
JudgeC05(e) ==
  LET c == CaseOf(e)  S == SchemaOf(c)  t == TypeOf(c) IN
  CASE e.ev = "srec" ->
        LET v == RecVal(c, e.rec)
            what == "a record of a stream (" \o e.kind \o " bytes, " \o e.style \o " reader): "
        IN FirstBad(<<
             <<e.res = "nil", what \o "DecodeBebop returned " \o e.res>>,
             <<e.res # "nil" \/ ~e.overask, what \o "asked the reader for bytes beyond the end of the record">>,
             <<e.res # "nil" \/ e.consumed = e.n, what \o "consumed a number of bytes different from the record's length">>,
             <<e.res # "nil" \/ e.kind # "ref" \/ e.n = Len(RecEnc(c, e.rec)), what \o "record length differs from the reference encoding">>,
             <<e.res # "nil" \/ ValOf(e) = Norm(S, t, v), what \o "decoded value differs from the value written">> >>)
    [] e.ev = "bigrec" -> JudgeBig(e)
    [] OTHER -> NAv

\* C04: bytes written under the newer schema decode under the older one to the
\* restriction of the value (c.want, computed by Gen_Evolve from RestrictTo), all consumed
JudgeC04(e) ==
  LET c == CaseOf(e)  S == SchemaOf(c)  t == TypeOf(c) IN
  CASE e.ev = "dec" ->
        LET ideal == FirstBad(<<
              <<e.res = "nil", e.api \o " of a newer version's bytes under the older schema: " \o e.res>>,
              <<e.res # "nil" \/ ValOf(e) = c.want, e.api \o " under the older schema does not yield the value restricted to the fields it knows">>,
              <<e.res # "nil" \/ ~Has(e, "consumed") \/ e.consumed = Len(c.enc), "DecodeBebop under the older schema consumed a different number of bytes">> >>)
            \* the as-is model's prediction: the same value (dates apart: a decoder that has lost its place reads tick
            \* counts no time.Time can hold, and what comes back for them is arithmetic overflow, not modelled), the same
            \* failure, or - where the model sees an allocation made from a misread count - the runaway it leads to
            asisSame == e.api = "UnmarshalBebop" /\ "advance_by_decoded_size" \in Devs /\
                        \/ (c.asis.o = "ok" /\ e.res = "nil" /\ BlankDates(S, t, ValOf(e)) = BlankDates(S, t, Canon(S, t, c.asis.v)))
                        \/ (c.asis.o \in {"err", "panic"} /\ e.res = "err")
                        \/ (c.asis.big # "" /\ (e.res \in {"oom", "timeout"} \/ e.big))
        IN IF ideal.v = "OK" THEN ideal
           ELSE IF asisSame THEN Known("advance_by_decoded_size", ideal.why)
           ELSE ideal
    [] e.ev = "padded" ->
        \* the same bytes with one more unknown field (index 200, a byte array of e.k bytes) in the evolved message: what a
        \* still newer peer would send. Same value as without it (e.tail_ok), all e.n bytes consumed, nothing else.
        LET what == "the evolved message also carries an unknown field of " \o ToString(e.k) \o " bytes (" \o e.style \o "): " IN
        FirstBad(<<
          <<e.res = "nil", what \o e.api \o " returned " \o e.res>>,
          <<e.res # "nil" \/ e.consumed = e.n, what \o e.api \o " consumed a number of bytes different from the record's length">>,
          <<e.res # "nil" \/ e.tail_ok, what \o e.api \o " does not yield the value it yields without that field">> >>)
    [] OTHER -> NAv

\* C12: whatever the generator accepts compiles
JudgeC12(e) ==
  LET c == CaseOf(e)  sch == Schemas[c.si] IN
  CASE e.ev = "generate" ->
        IF ~e.accepted THEN NAv
        ELSE IF e.compiles THEN OKv
        ELSE IF sch.ctx = "names" /\ AsIsNameClash(Devs, sch.nm, c.opts)
             THEN Known("uncompilable:identifier_clash", "generated code does not compile: " \o sch.tag)
        ELSE IF sch.ctx = "impuse" THEN Bad("a schema that uses an " \o sch.tag \o " generates Go code that does not compile under options " \o ToString(c.opts))
        ELSE IF sch.ctx = "names" THEN Bad("a valid schema generates Go code that does not compile: " \o sch.tag)
        ELSE IF AsIsUncompilableS(Devs, sch.defs, sch.ft, sch.ctx) # ""
             THEN Known(AsIsUncompilableS(Devs, sch.defs, sch.ft, sch.ctx), "generated code does not compile")
        ELSE Bad("accepted schema generates Go code that does not compile")
    [] OTHER -> NAv

Judge(e) ==
  CASE Prop = "C01" -> JudgeC01(e)
    [] Prop = "C12" -> JudgeC12(e)
    [] Prop = "C09" -> JudgeC09(e)
    [] Prop = "C06" -> JudgeC06(e)
    [] Prop = "C07" -> JudgeC07(e)
    [] Prop = "C08" -> JudgeC08(e)
    [] Prop = "C05" -> JudgeC05(e)
    [] Prop = "C04" -> JudgeC04(e)
    [] Prop = "C02" -> JudgeC02(e)
    [] Prop = "C03" -> JudgeC03(e)
    [] OTHER -> NAv

-----------------------------------------------------------------------------
NoU == [cid |-> 0, res |-> "", val |-> <<>>, in |-> <<>>, reuse |-> FALSE]
Init == l = 1 /\ nOK = 0 /\ nKnown = 0 /\ nViol = 0 /\ nNA = 0 /\ lastU = NoU

Report(j, e) ==
  PrintT("@@V " \o ToJson([l |-> l, cid |-> e.cid, m |-> e.m, ev |-> e.ev, verdict |-> j.v,
                           why |-> j.why, dev |-> j.dev]))

Step ==
  /\ l <= Len(Trace)
  /\ LET e == Trace[l]  j == Judge(e) IN
     /\ l' = l + 1
     /\ lastU' = IF e.ev \in {"dec", "redec"} /\ e.api = "UnmarshalBebop"
                 THEN [cid |-> e.cid, res |-> e.res, val |-> ValOf(e), in |-> InOf(e), reuse |-> e.ev = "redec"] ELSE lastU
     /\ nOK'    = nOK    + (IF j.v = "OK" THEN 1 ELSE 0)
     /\ nNA'    = nNA    + (IF j.v = "NA" THEN 1 ELSE 0)
     /\ nKnown' = nKnown + (IF j.v = "KNOWN" THEN 1 ELSE 0)
     /\ nViol'  = nViol  + (IF j.v = "VIOLATION" THEN 1 ELSE 0)
     /\ (j.v \in {"KNOWN", "VIOLATION"}) => Report(j, e)

Next == Step
Spec == Init /\ [][Next]_vars

\* the whole trace was consumed (one state per event plus the initial state)
TraceAccepted ==
  /\ TLCGet("stats").diameter - 1 = Len(Trace)
  /\ PrintT("@@SUMMARY " \o ToJson([events |-> Len(Trace)]))

Done == l = Len(Trace) + 1 =>
          PrintT("@@COUNTS " \o ToJson([ok |-> nOK, na |-> nNA, known |-> nKnown, viol |-> nViol]))
=============================================================================
