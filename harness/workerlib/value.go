// Package workerlib is linked, together with generated packages, into the
// sandboxed worker binary. It maps abstract values (the TLA+ value shapes of
// spec/BebopWire.tla) to and from the Go values of generated types by
// reflection, executes API calls on them and reports what it observed.
// It contains no encoder or decoder of the wire format.
package workerlib

import (
	"fmt"
	"reflect"
	"sort"
	"strings"
	"time"
	"unsafe"
)

// Abstract type / schema (same JSON as internal/abs, duplicated here so that the
// worker does not depend on internal packages).
type Type struct {
	K   string `json:"k"`
	P   string `json:"p,omitempty"`
	E   *Type  `json:"e,omitempty"`
	Key string `json:"key,omitempty"`
	V   *Type  `json:"v,omitempty"`
	N   string `json:"n,omitempty"`
}

type Field struct {
	Name string `json:"name"`
	T    Type   `json:"t"`
	Idx  int    `json:"idx,omitempty"`
	Dep  bool   `json:"dep,omitempty"`
}

type BranchRef struct {
	Idx int    `json:"idx"`
	N   string `json:"n"`
}

type Def struct {
	Name     string      `json:"name"`
	Kind     string      `json:"kind"`
	Base     string      `json:"base,omitempty"`
	Ro       bool        `json:"ro,omitempty"`
	Fields   []Field     `json:"fields,omitempty"`
	Branches []BranchRef `json:"branches,omitempty"`
	Inner    string      `json:"inner,omitempty"`
}

type Schema []Def

func (s Schema) Def(name string) *Def {
	for i := range s {
		if s[i].Name == name {
			return &s[i]
		}
	}
	return nil
}

// Val is an abstract value: nested []interface{} whose leaves are float64
// (as decoded from JSON) or int (as produced by Lift).
type Val = interface{}

func seq(v Val) []interface{} {
	if v == nil {
		return nil
	}
	s, ok := v.([]interface{})
	if !ok {
		panic(fmt.Sprintf("abstract value: expected sequence, got %T", v))
	}
	return s
}

func num(v Val) int {
	switch x := v.(type) {
	case float64:
		return int(x)
	case int:
		return x
	}
	panic(fmt.Sprintf("abstract value: expected number, got %T", v))
}

func bytesOf(v Val) []byte {
	s := seq(v)
	b := make([]byte, len(s))
	for i, x := range s {
		b[i] = byte(num(x))
	}
	return b
}

func valOfBytes(b []byte) Val {
	s := make([]interface{}, len(b))
	for i, x := range b {
		s[i] = int(x)
	}
	return s
}

// le converts little-endian digits to an unsigned integer with the harness's
// own arithmetic (sum d_i * 256^i): this is what makes "little-endian" an
// independent judgement.
func le(b []byte) uint64 {
	var n uint64
	var mul uint64 = 1
	for _, d := range b {
		n += uint64(d) * mul
		mul *= 256
	}
	return n
}

func digits(n uint64, w int) []byte {
	b := make([]byte, w)
	for i := 0; i < w; i++ {
		b[i] = byte(n % 256)
		n /= 256
	}
	return b
}

// settable returns an addressable, settable view of v even if it was
// obtained through an unexported field.
func settable(v reflect.Value) reflect.Value {
	if v.CanSet() {
		return v
	}
	if !v.CanAddr() {
		panic("value not addressable")
	}
	return reflect.NewAt(v.Type(), unsafe.Pointer(v.UnsafeAddr())).Elem()
}

var timeType = reflect.TypeOf(time.Time{})

// TicksToTime builds a time from 100ns ticks since the Unix epoch with the
// harness's own arithmetic. Tick 0 is the zero time.
func TicksToTime(t int64) time.Time {
	if t == 0 {
		return time.Time{}
	}
	sec := t / 10000000
	rem := t % 10000000
	if rem < 0 {
		rem += 10000000
		sec--
	}
	return time.Unix(sec, rem*100).UTC()
}

func TimeToTicks(t time.Time) int64 {
	if t.IsZero() {
		return 0
	}
	return t.Unix()*10000000 + int64(t.Nanosecond())/100
}

// Build stores abstract value v of type t into rv (addressable).
func Build(s Schema, t Type, v Val, rv reflect.Value, nilEmpty bool) {
	rv = settable(rv)
	switch t.K {
	case "p":
		buildPrim(t.P, v, rv)
	case "a":
		els := seq(v)
		if len(els) == 0 && nilEmpty {
			rv.Set(reflect.Zero(rv.Type()))
			return
		}
		sl := reflect.MakeSlice(rv.Type(), len(els), len(els))
		for i, e := range els {
			Build(s, *t.E, e, sl.Index(i), nilEmpty)
		}
		rv.Set(sl)
	case "m":
		prs := seq(v)
		if len(prs) == 0 && nilEmpty {
			rv.Set(reflect.Zero(rv.Type()))
			return
		}
		m := reflect.MakeMapWithSize(rv.Type(), len(prs))
		for _, pr := range prs {
			kv := seq(pr)
			k := reflect.New(rv.Type().Key()).Elem()
			buildPrim(t.Key, kv[0], k)
			e := reflect.New(rv.Type().Elem()).Elem()
			Build(s, *t.V, kv[1], e, nilEmpty)
			m.SetMapIndex(k, e)
		}
		rv.Set(m)
	case "r":
		d := s.Def(t.N)
		if d == nil {
			panic("undefined " + t.N)
		}
		switch d.Kind {
		case "enum":
			buildPrim(d.Base, v, rv)
		case "struct":
			fs := seq(v)
			if rv.Kind() != reflect.Struct || rv.NumField() != len(d.Fields) {
				panic(fmt.Sprintf("go type %s does not match struct %s", rv.Type(), d.Name))
			}
			for i := range d.Fields {
				Build(s, d.Fields[i].T, fs[i], goField(rv, d.Fields[i].Name), nilEmpty)
			}
		case "message":
			if rv.Kind() != reflect.Struct || rv.NumField() != len(d.Fields) {
				panic(fmt.Sprintf("go type %s does not match message %s", rv.Type(), d.Name))
			}
			order := msgOrder(d)
			for _, pr := range seq(v) {
				kv := seq(pr)
				if _, ok := order[num(kv[0])]; !ok {
					panic(fmt.Sprintf("message %s has no index %d", d.Name, num(kv[0])))
				}
				f := settable(goField(rv, fieldByIdx(d, num(kv[0])).Name))
				p := reflect.New(f.Type().Elem())
				Build(s, fieldByIdx(d, num(kv[0])).T, kv[1], p.Elem(), nilEmpty)
				f.Set(p)
			}
		case "union":
			if rv.Kind() != reflect.Struct || rv.NumField() != len(d.Branches) {
				panic(fmt.Sprintf("go type %s does not match union %s", rv.Type(), d.Name))
			}
			uv := seq(v)
			_, br := branchPos(d, num(uv[0]))
			f := settable(goField(rv, br.N))
			p := reflect.New(f.Type().Elem())
			Build(s, Type{K: "r", N: br.N}, uv[1], p.Elem(), nilEmpty)
			f.Set(p)
		}
	}
}

// goField finds the Go struct field generated for a schema identifier: the generator changes the case of the
// first letter only (upper case when exported; lower case for private definitions and readonly structs).
func goField(rv reflect.Value, name string) reflect.Value {
	if name == "" {
		panic("empty field name")
	}
	up := strings.ToUpper(name[:1]) + name[1:]
	lo := strings.ToLower(name[:1]) + name[1:]
	t := rv.Type()
	for i := 0; i < t.NumField(); i++ {
		if n := t.Field(i).Name; n == up || n == lo {
			return rv.Field(i)
		}
	}
	panic(fmt.Sprintf("go type %s has no field for %q", rv.Type(), name))
}

// msgOrder maps a field index to its position in the generated Go struct
// (fields are emitted in ascending index order).
func msgOrder(d *Def) map[int]int {
	idx := make([]int, len(d.Fields))
	for i, f := range d.Fields {
		idx[i] = f.Idx
	}
	sort.Ints(idx)
	m := map[int]int{}
	for pos, i := range idx {
		m[i] = pos
	}
	return m
}

func fieldByIdx(d *Def, idx int) *Field {
	for i := range d.Fields {
		if d.Fields[i].Idx == idx {
			return &d.Fields[i]
		}
	}
	return nil
}

func branchPos(d *Def, idx int) (int, *BranchRef) {
	ids := make([]int, len(d.Branches))
	for i, b := range d.Branches {
		ids[i] = b.Idx
	}
	sort.Ints(ids)
	for pos, i := range ids {
		if i == idx {
			for j := range d.Branches {
				if d.Branches[j].Idx == idx {
					return pos, &d.Branches[j]
				}
			}
		}
	}
	panic(fmt.Sprintf("union %s has no branch %d", d.Name, idx))
}

func buildPrim(p string, v Val, rv reflect.Value) {
	rv = settable(rv)
	b := bytesOf(v)
	ptr := unsafe.Pointer(rv.UnsafeAddr())
	switch p {
	case "bool":
		rv.SetBool(b[0] == 1)
	case "byte", "uint8":
		*(*uint8)(ptr) = uint8(le(b))
	case "uint16", "int16":
		*(*uint16)(ptr) = uint16(le(b))
	case "uint32", "int32", "float32":
		*(*uint32)(ptr) = uint32(le(b))
	case "uint64", "int64", "float64":
		*(*uint64)(ptr) = le(b)
	case "string":
		rv.SetString(string(b))
	case "guid":
		if rv.Kind() != reflect.Array || rv.Len() != 16 {
			panic("guid: go type is " + rv.Type().String())
		}
		for i := 0; i < 16; i++ {
			rv.Index(i).SetUint(uint64(b[i]))
		}
	case "date":
		if rv.Type() != timeType {
			panic("date: go type is " + rv.Type().String())
		}
		*(*time.Time)(ptr) = TicksToTime(int64(le(b)))
	default:
		panic("unknown primitive " + p)
	}
	// sanity: the Go kind must have the size the abstract type says
	if w, ok := primWidth[p]; ok && p != "guid" && p != "date" {
		if int(rv.Type().Size()) != w {
			panic(fmt.Sprintf("primitive %s: go type %s has size %d", p, rv.Type(), rv.Type().Size()))
		}
	}
}

var primWidth = map[string]int{
	"bool": 1, "byte": 1, "uint8": 1, "uint16": 2, "int16": 2, "uint32": 4, "int32": 4,
	"uint64": 8, "int64": 8, "float32": 4, "float64": 8, "guid": 16, "date": 8,
}

func liftPrim(p string, rv reflect.Value) Val {
	if !rv.CanAddr() {
		c := reflect.New(rv.Type()).Elem()
		c.Set(rv)
		rv = c
	}
	ptr := unsafe.Pointer(rv.UnsafeAddr())
	switch p {
	case "bool":
		if *(*uint8)(ptr) == 1 {
			return valOfBytes([]byte{1})
		}
		if *(*uint8)(ptr) == 0 {
			return valOfBytes([]byte{0})
		}
		return valOfBytes([]byte{*(*uint8)(ptr)})
	case "byte", "uint8":
		return valOfBytes(digits(uint64(*(*uint8)(ptr)), 1))
	case "uint16", "int16":
		return valOfBytes(digits(uint64(*(*uint16)(ptr)), 2))
	case "uint32", "int32", "float32":
		return valOfBytes(digits(uint64(*(*uint32)(ptr)), 4))
	case "uint64", "int64", "float64":
		return valOfBytes(digits(*(*uint64)(ptr), 8))
	case "string":
		return valOfBytes([]byte(rv.String()))
	case "guid":
		b := make([]byte, 16)
		for i := range b {
			b[i] = byte(rv.Index(i).Uint())
		}
		return valOfBytes(b)
	case "date":
		t := *(*time.Time)(ptr)
		if !t.IsZero() && TimeToTicks(t) == 0 {
			// tick 0 is the zero time (iohelp.ReadDateBytes); a decoder that hands out 1970-01-01 for it returns a
			// different Go value (IsZero, Equal, the year): lifted to a value no abstract date is equal to
			return valOfBytes(append(digits(0, 8), 1))
		}
		return valOfBytes(digits(uint64(TimeToTicks(t)), 8))
	}
	panic("unknown primitive " + p)
}

// readable returns a view of v whose unexported parts can be read.
func readable(v reflect.Value) reflect.Value {
	if v.CanInterface() {
		return v
	}
	if v.CanAddr() {
		return reflect.NewAt(v.Type(), unsafe.Pointer(v.UnsafeAddr())).Elem()
	}
	return v
}

func lexLess(a, b []interface{}) bool {
	for i := 0; i < len(a) && i < len(b); i++ {
		x, y := num(a[i]), num(b[i])
		if x != y {
			return x < y
		}
	}
	return len(a) < len(b)
}

// Lift maps a Go value back to an abstract value. Map entries are sorted by
// key bytes (the canonical order of the specification).
func Lift(s Schema, t Type, rv reflect.Value) Val {
	rv = readable(rv)
	switch t.K {
	case "p":
		return liftPrim(t.P, rv)
	case "a":
		out := make([]interface{}, rv.Len())
		for i := range out {
			out[i] = Lift(s, *t.E, rv.Index(i))
		}
		return out
	case "m":
		out := make([]interface{}, 0, rv.Len())
		it := rv.MapRange()
		for it.Next() {
			k := reflect.New(rv.Type().Key()).Elem()
			k.Set(it.Key())
			e := reflect.New(rv.Type().Elem()).Elem()
			e.Set(it.Value())
			out = append(out, []interface{}{liftPrim(t.Key, k), Lift(s, *t.V, e)})
		}
		sort.SliceStable(out, func(i, j int) bool {
			return lexLess(seq(seq(out[i])[0]), seq(seq(out[j])[0]))
		})
		return out
	case "r":
		d := s.Def(t.N)
		switch d.Kind {
		case "enum":
			return liftPrim(d.Base, rv)
		case "struct":
			out := make([]interface{}, len(d.Fields))
			for i := range d.Fields {
				out[i] = Lift(s, d.Fields[i].T, goField(rv, d.Fields[i].Name))
			}
			return out
		case "message":
			out := []interface{}{}
			idx := make([]int, len(d.Fields))
			for i, f := range d.Fields {
				idx[i] = f.Idx
			}
			sort.Ints(idx)
			for _, i := range idx {
				f := readable(goField(rv, fieldByIdx(d, i).Name))
				if f.IsNil() {
					continue
				}
				out = append(out, []interface{}{i, Lift(s, fieldByIdx(d, i).T, f.Elem())})
			}
			return out
		case "union":
			ids := make([]int, len(d.Branches))
			for i, b := range d.Branches {
				ids[i] = b.Idx
			}
			sort.Ints(ids)
			members := []interface{}{}
			for _, i := range ids {
				_, br := branchPos(d, i)
				f := readable(goField(rv, br.N))
				if f.IsNil() {
					continue
				}
				members = append(members, []interface{}{i, Lift(s, Type{K: "r", N: br.N}, f.Elem())})
			}
			if len(members) == 1 {
				return members[0]
			}
			// zero or several members: not a union value; report what is there
			return []interface{}{-len(members), members}
		}
	}
	panic("bad type")
}
