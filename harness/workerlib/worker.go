package workerlib

import (
	"bufio"
	"bytes"
	"encoding/json"
	"errors"
	"fmt"
	"io"
	"os"
	"reflect"
	"runtime"
	"strings"
	"time"

	"github.com/200sc/bebop"
)

var registry = map[string]map[string]func() bebop.Record{}

// Register is called by the generated worker main for every compiled package.
func Register(pid string, recs map[string]func() bebop.Record) { registry[pid] = recs }

type pkgInfo struct {
	Pid  string   `json:"pid"`
	Sid  int      `json:"sid"`
	Defs Schema   `json:"defs"`
	Opts []string `json:"opts"`
}

var pkgs = map[string]*pkgInfo{}

// Cmd is one unit of work: a case plus the operations to run on it.
type Cmd struct {
	Cid    int      `json:"cid"`
	Pid    string   `json:"pid"`
	Root   string   `json:"root"`
	V      Val      `json:"v"`
	Ref    []int    `json:"ref"`
	Op     string   `json:"op"`
	From   int      `json:"from"`
	Inputs [][]int  `json:"inputs,omitempty"`     // corrupt: byte strings to decode
	Seq    []Val    `json:"seq,omitempty"`        // stream: values of further records
	SeqEnc [][]int  `json:"seqenc,omitempty"`     // stream: their reference encodings
	Scheds [][]int  `json:"scheds,omitempty"`     // stream: fragmentation patterns
	Errs   []string `json:"errs,omitempty"`       // fault kinds
	V1Pid  string   `json:"v1pid,omitempty"`      // evolve: package of the older schema version
	SkipB  []bool   `json:"skipb,omitempty"`      // corrupt: inputs not to run through UnmarshalBebop
	SkipS  []bool   `json:"skips,omitempty"`      // corrupt: inputs not to run through DecodeBebop
	Alt    []int    `json:"alt,omitempty"`        // codec: the reference encoding of another value of the same schema
	Ctx    string   `json:"ctx,omitempty"`        // decref (C04): the context of the evolved message
	Big    bool     `json:"bigpayload,omitempty"` // stream: also with the first string / byte array stretched beyond buffer sizes
}

// Event is one observation; fields are omitted when not applicable.
type Event struct {
	Ev       string   `json:"ev"`
	Cid      int      `json:"cid"`
	M        int      `json:"m"`
	API      string   `json:"api,omitempty"`
	Res      string   `json:"res"`
	Msg      string   `json:"msg,omitempty"`
	N        *int     `json:"n,omitempty"`
	Out      []int    `json:"out,omitempty"`
	HasOut   bool     `json:"hasout,omitempty"`
	Ret      *int     `json:"ret,omitempty"`
	Prior    *int     `json:"prior,omitempty"`
	Slack    *int     `json:"slack,omitempty"`
	TailOK   *bool    `json:"tail_ok,omitempty"`
	Writes   *int     `json:"writes,omitempty"`
	Srcs     []string `json:"srcs,omitempty"`
	In       []int    `json:"in,omitempty"`
	HasIn    bool     `json:"hasin,omitempty"`
	Val      Val      `json:"val,omitempty"`
	HasVal   bool     `json:"hasval,omitempty"`
	Consumed *int     `json:"consumed,omitempty"`
	Big      bool     `json:"big"`
	Alloc    uint64   `json:"alloc,omitempty"`
	K        *int     `json:"k,omitempty"`
	Kind     string   `json:"kind,omitempty"`
	Style    string   `json:"style,omitempty"`
	Sched    *int     `json:"sched,omitempty"`
	Rec      *int     `json:"rec,omitempty"`
	Overask  bool     `json:"overask"`
	Written  []int    `json:"written,omitempty"`
	Idx      *int     `json:"idx,omitempty"`
	Outs     [][]int  `json:"outs,omitempty"`
	Ends     []int    `json:"ends,omitempty"`
	Req      *int     `json:"req,omitempty"`
	Got      *int     `json:"got,omitempty"`
}

func ip(i int) *int   { return &i }
func bp(b bool) *bool { return &b }
func ints(b []byte) []int {
	out := make([]int, len(b))
	for i, x := range b {
		out[i] = int(x)
	}
	return out
}
func bytesFromInts(a []int) []byte {
	out := make([]byte, len(a))
	for i, x := range a {
		out[i] = byte(x)
	}
	return out
}

var out *bufio.Writer

// maxEventBytes bounds one observation. A decoder that has lost its place can return a value of many megabytes
// (a count read from the wrong offset); no value of the universes comes near this size, so such a value is
// reported as what it is - different from every expected value - without shipping it to the judge.
const maxEventBytes = 2 << 20

func emit(e *Event) {
	b, err := json.Marshal(e)
	if err != nil {
		b, _ = json.Marshal(&Event{Ev: e.Ev, Cid: e.Cid, M: e.M, Res: "harness-error", Msg: err.Error()})
	}
	if len(b) > maxEventBytes && (e.HasVal || e.HasOut) {
		// (the judge sees a call that did not return a usable result: "res" is no longer "nil")
		e.Val, e.HasVal, e.Out, e.HasOut = nil, false, nil, false
		if e.Res == "nil" {
			e.Res = fmt.Sprintf("a result of %d bytes (as JSON), which no value of the universe has", len(b))
		}
		b, _ = json.Marshal(e)
	}
	out.Write(b)
	out.WriteByte('\n')
	out.Flush()
}

// begin announces a micro-operation. desc is the event that the supervisor
// completes with res = crash|oom|timeout if the process dies before reporting.
func begin(cid, m int, desc *Event) {
	desc.Cid = cid
	desc.M = m
	b, _ := json.Marshal(desc)
	fmt.Fprintf(out, "#B %d %d %s\n", cid, m, b)
	out.Flush()
}

// call runs f under recover and measures allocation.
func call(inputLen int, f func() error) (res string, msg string, big bool, alloc uint64) {
	var ms0, ms1 runtime.MemStats
	runtime.ReadMemStats(&ms0)
	func() {
		defer func() {
			if r := recover(); r != nil {
				res = "panic"
				msg = fmt.Sprint(r)
				if len(msg) > 200 {
					msg = msg[:200]
				}
			}
		}()
		err := f()
		if err != nil {
			res = "err"
			msg = err.Error()
			if len(msg) > 200 {
				msg = msg[:200]
			}
		} else {
			res = "nil"
		}
	}()
	runtime.ReadMemStats(&ms1)
	alloc = ms1.TotalAlloc - ms0.TotalAlloc
	big = alloc > uint64(64*inputLen+65536)
	return
}

func newRecord(pid, goName string) bebop.Record {
	recs := registry[pid]
	if recs == nil {
		panic("package not registered: " + pid)
	}
	if c, ok := recs[goName]; ok {
		return c()
	}
	// generated names differ from schema names only in the case of the first letter
	for n, c := range recs {
		if strings.EqualFold(n[:1], goName[:1]) && n[1:] == goName[1:] {
			return c()
		}
	}
	panic("no record type " + goName + " in " + pid)
}

func buildRecord(pi *pkgInfo, root string, v Val, nilEmpty bool) bebop.Record {
	rec := newRecord(pi.Pid, root)
	Build(pi.Defs, Type{K: "r", N: root}, v, reflect.ValueOf(rec).Elem(), nilEmpty)
	return rec
}

func liftRecord(pi *pkgInfo, root string, rec bebop.Record) (v Val, err error) {
	defer func() {
		if r := recover(); r != nil {
			err = fmt.Errorf("lift: %v", r)
		}
	}()
	return Lift(pi.Defs, Type{K: "r", N: root}, reflect.ValueOf(rec).Elem()), nil
}

// posReader hands out the bytes of data and counts what was consumed.
type posReader struct {
	data    []byte
	pos     int
	dataEOF bool
}

func (r *posReader) Read(p []byte) (int, error) {
	if r.pos >= len(r.data) {
		return 0, io.EOF
	}
	n := copy(p, r.data[r.pos:])
	r.pos += n
	if r.dataEOF && r.pos == len(r.data) {
		return n, io.EOF
	}
	return n, nil
}

type recWriter struct {
	buf    bytes.Buffer
	writes int
}

func (w *recWriter) Write(p []byte) (int, error) {
	w.writes++
	return w.buf.Write(p)
}

type mustUnmarshaler interface{ MustUnmarshalBebop([]byte) }

var trailer = []byte{0xEE, 0xEE, 0xEE}

func decodeEvent(pi *pkgInfo, c *Cmd, m int, api string, in []byte) *Event {
	e := &Event{Ev: "dec", Cid: c.Cid, M: m, API: api}
	rec := newRecord(pi.Pid, c.Root)
	var consumed = -1
	switch api {
	case "UnmarshalBebop":
		e.Res, e.Msg, e.Big, e.Alloc = call(len(in), func() error { return rec.UnmarshalBebop(in) })
	case "MustUnmarshalBebop":
		mu := rec.(mustUnmarshaler)
		e.Res, e.Msg, e.Big, e.Alloc = call(len(in), func() error { mu.MustUnmarshalBebop(in); return nil })
	case "DecodeBebop":
		// trailing bytes after the record make reading too much visible
		pr := &posReader{data: append(append([]byte{}, in...), trailer...)}
		e.Res, e.Msg, e.Big, e.Alloc = call(len(in), func() error { return rec.DecodeBebop(pr) })
		consumed = pr.pos
		e.Consumed = ip(consumed)
	}
	if e.Res == "nil" {
		v, err := liftRecord(pi, c.Root, rec)
		if err != nil {
			e.Res = "harness-error"
			e.Msg = err.Error()
		} else {
			e.Val = v
			e.HasVal = true
		}
	}
	return e
}

func hasMust(pi *pkgInfo, root string) bool {
	_, ok := newRecord(pi.Pid, root).(mustUnmarshaler)
	return ok
}

// opCodec: Size, the three encoders (MarshalBebopTo into pre-filled buffers),
// then every decoder on the reference bytes and on every distinct encoder output.
func opCodec(pi *pkgInfo, c *Cmd) {
	ref := bytesFromInts(c.Ref)
	m := 0
	rec := buildRecord(pi, c.Root, c.V, c.Cid%2 == 0)
	// size
	begin(c.Cid, m, &Event{Ev: "size"})
	var size int
	{
		e := &Event{Ev: "size", Cid: c.Cid, M: m}
		e.Res, e.Msg, e.Big, e.Alloc = call(len(ref), func() error { size = rec.Size(); return nil })
		e.N = ip(size)
		emit(e)
	}
	m++
	type src struct {
		name string
		b    []byte
	}
	var outs []src
	// MarshalBebop
	begin(c.Cid, m, &Event{Ev: "enc", API: "MarshalBebop"})
	{
		e := &Event{Ev: "enc", Cid: c.Cid, M: m, API: "MarshalBebop"}
		var b []byte
		e.Res, e.Msg, e.Big, e.Alloc = call(len(ref), func() error { b = rec.MarshalBebop(); return nil })
		if e.Res == "nil" {
			e.Out = ints(b)
			e.HasOut = true
			outs = append(outs, src{"MarshalBebop", b})
		}
		emit(e)
	}
	m++
	for _, ps := range [][2]int{{0, 8}, {255, 8}, {165, 8}, {255, 0}} {
		begin(c.Cid, m, &Event{Ev: "enc", API: "MarshalBebopTo", Prior: ip(ps[0]), Slack: ip(ps[1])})
		e := &Event{Ev: "enc", Cid: c.Cid, M: m, API: "MarshalBebopTo", Prior: ip(ps[0]), Slack: ip(ps[1])}
		if size < 0 || size > 1<<26 {
			e.Res = "skipped"
			emit(e)
			m++
			continue
		}
		buf := make([]byte, size+ps[1])
		for i := range buf {
			buf[i] = byte(ps[0])
		}
		var ret int
		e.Res, e.Msg, e.Big, e.Alloc = call(len(ref), func() error { ret = rec.MarshalBebopTo(buf); return nil })
		if e.Res == "nil" {
			e.Ret = ip(ret)
			e.Out = ints(buf[:size])
			e.HasOut = true
			ok := true
			for _, x := range buf[size:] {
				if x != byte(ps[0]) {
					ok = false
				}
			}
			e.TailOK = bp(ok)
			if ps[0] == 255 && ps[1] == 8 {
				outs = append(outs, src{"MarshalBebopTo", append([]byte{}, buf[:size]...)})
			}
		}
		emit(e)
		m++
	}
	begin(c.Cid, m, &Event{Ev: "enc", API: "EncodeBebop"})
	{
		e := &Event{Ev: "enc", Cid: c.Cid, M: m, API: "EncodeBebop"}
		w := &recWriter{}
		e.Res, e.Msg, e.Big, e.Alloc = call(len(ref), func() error { return rec.EncodeBebop(w) })
		e.Out = ints(w.buf.Bytes())
		e.HasOut = true
		e.Writes = ip(w.writes)
		if e.Res == "nil" {
			outs = append(outs, src{"EncodeBebop", append([]byte{}, w.buf.Bytes()...)})
		}
		emit(e)
	}
	m++
	// values the abstract domain does not reach: times that are not a multiple of 100ns. How they are rounded is
	// not the property's business, but every encoder must round them the same way (C02).
	if hasDate(pi.Defs, Type{K: "r", N: c.Root}, 0) {
		rec2 := buildRecord(pi, c.Root, c.V, c.Cid%2 == 0)
		if shiftDates(reflect.ValueOf(rec2).Elem(), 37) > 0 {
			begin(c.Cid, m, &Event{Ev: "encx"})
			e := &Event{Ev: "encx", Cid: c.Cid, M: m}
			var o1, o3 []byte
			var sz int
			o2 := []byte{}
			e.Res, e.Msg, e.Big, e.Alloc = call(len(ref), func() error {
				sz = rec2.Size()
				o1 = rec2.MarshalBebop()
				if sz >= 0 && sz < 1<<26 {
					o2 = bytes.Repeat([]byte{0xA5}, sz)
					rec2.MarshalBebopTo(o2)
				}
				w := &recWriter{}
				if err := rec2.EncodeBebop(w); err != nil {
					return err
				}
				o3 = w.buf.Bytes()
				return nil
			})
			e.N = ip(sz)
			e.Outs = [][]int{ints(o1), ints(o2), ints(o3)}
			emit(e)
			m++
		}
	}
	// distinct inputs
	type input struct {
		srcs []string
		b    []byte
	}
	inputs := []*input{{srcs: []string{"ref"}, b: ref}}
	for _, o := range outs {
		found := false
		for _, in := range inputs {
			if bytes.Equal(in.b, o.b) {
				in.srcs = append(in.srcs, o.name)
				found = true
				break
			}
		}
		if !found {
			inputs = append(inputs, &input{srcs: []string{o.name}, b: o.b})
		}
	}
	apis := []string{"UnmarshalBebop", "DecodeBebop"}
	if hasMust(pi, c.Root) {
		apis = append(apis, "MustUnmarshalBebop")
	}
	for _, in := range inputs {
		for _, api := range apis {
			begin(c.Cid, m, &Event{Ev: "dec", API: api, Srcs: in.srcs})
			e := decodeEvent(pi, c, m, api, in.b)
			e.Srcs = in.srcs
			if in.srcs[0] != "ref" {
				e.In = ints(in.b)
				e.HasIn = true
			}
			emit(e)
			m++
		}
	}
	// a receiver that is not fresh: it already holds another value of the schema (decoded by UnmarshalBebop from
	// c.Alt); whatever a decoder does with what is there, the unchecked decoder must agree with the checked one (C09)
	if len(c.Alt) > 0 && hasMust(pi, c.Root) {
		alt := bytesFromInts(c.Alt)
		for _, api := range []string{"UnmarshalBebop", "MustUnmarshalBebop"} {
			rec := newRecord(pi.Pid, c.Root)
			if r0, _, _, _ := call(len(alt), func() error { return rec.UnmarshalBebop(alt) }); r0 != "nil" {
				break
			}
			begin(c.Cid, m, &Event{Ev: "redec", API: api})
			e := &Event{Ev: "redec", Cid: c.Cid, M: m, API: api}
			if api == "UnmarshalBebop" {
				e.Res, e.Msg, e.Big, e.Alloc = call(len(ref), func() error { return rec.UnmarshalBebop(ref) })
			} else {
				mu := rec.(mustUnmarshaler)
				e.Res, e.Msg, e.Big, e.Alloc = call(len(ref), func() error { mu.MustUnmarshalBebop(ref); return nil })
			}
			if e.Res == "nil" {
				if v, err := liftRecord(pi, c.Root, rec); err != nil {
					e.Res, e.Msg = "harness-error", err.Error()
				} else {
					e.Val, e.HasVal = v, true
				}
			}
			emit(e)
			m++
		}
	}
	// payloads beyond buffer sizes (every decoder, bytes of the real encoder)
	if c.Big {
		opBigStream(pi, c, m)
	}
}

// opCuts: every strict prefix of the reference encoding into both checked decoders.
func opCuts(pi *pkgInfo, c *Cmd) {
	ref := bytesFromInts(c.Ref)
	apis := []string{"UnmarshalBebop", "DecodeBebop", "DecodeBebop (last bytes with io.EOF)"}
	if c.Cid%2 == 1 {
		// a standard reader that also implements io.ByteReader, io.Seeker, io.WriterTo ...
		apis = append(apis, "DecodeBebop (bytes.Reader)")
	}
	m := 0
	for _, api := range apis {
		for k := 0; k < len(ref); k++ {
			if m < c.From {
				m++
				continue
			}
			begin(c.Cid, m, &Event{Ev: "cut", API: api, K: ip(k)})
			e := cutEvent(pi, c, m, api, ref[:k])
			e.K = ip(k)
			emit(e)
			m++
		}
	}
}

func cutEvent(pi *pkgInfo, c *Cmd, m int, api string, in []byte) *Event {
	e := &Event{Ev: "cut", Cid: c.Cid, M: m, API: api}
	rec := newRecord(pi.Pid, c.Root)
	switch api {
	case "UnmarshalBebop":
		e.Res, e.Msg, e.Big, e.Alloc = call(len(in), func() error { return rec.UnmarshalBebop(in) })
	case "DecodeBebop":
		pr := &posReader{data: in}
		e.Res, e.Msg, e.Big, e.Alloc = call(len(in), func() error { return rec.DecodeBebop(pr) })
	case "DecodeBebop (bytes.Reader)":
		br := bytes.NewReader(in)
		e.Res, e.Msg, e.Big, e.Alloc = call(len(in), func() error { return rec.DecodeBebop(br) })
	default:
		// the reader hands out the last bytes it has together with io.EOF (the io.Reader contract allows it)
		pr := &posReader{data: in, dataEOF: true}
		e.Res, e.Msg, e.Big, e.Alloc = call(len(in), func() error { return rec.DecodeBebop(pr) })
	}
	return e
}

// opCorrupt: arbitrary byte strings (given by the specification) into both checked decoders.
func opCorrupt(pi *pkgInfo, c *Cmd) {
	apis := []string{"UnmarshalBebop", "DecodeBebop"}
	m := 0
	for i, inp := range c.Inputs {
		in := bytesFromInts(inp)
		for _, api := range apis {
			if m < c.From {
				m++
				continue
			}
			if (api == "UnmarshalBebop" && i < len(c.SkipB) && c.SkipB[i]) || (api == "DecodeBebop" && i < len(c.SkipS) && c.SkipS[i]) {
				m++
				continue
			}
			begin(c.Cid, m, &Event{Ev: "corrupt", API: api, Idx: ip(i)})
			e := cutEvent(pi, c, m, api, in)
			e.Ev = "corrupt"
			e.Idx = ip(i)
			emit(e)
			m++
		}
	}
}

var errBoom = errors.New("boom: injected failure")

func faultErr(kind string) error {
	switch kind {
	case "eof":
		return io.EOF
	case "unexpected":
		return io.ErrUnexpectedEOF
	}
	return errBoom
}

// faultReader delivers data[:k] and then fails. style "with": the failing
// Read returns the last bytes together with the error; "after": the error
// comes from the call after the last byte; "byte": one byte per call.
type faultReader struct {
	data  []byte
	k     int
	pos   int
	err   error
	style string
	fails int
}

func (r *faultReader) Read(p []byte) (int, error) {
	if len(p) == 0 {
		return 0, nil
	}
	if r.pos >= r.k {
		r.fails++
		return 0, r.err
	}
	avail := r.data[r.pos:r.k]
	if r.style == "byte" {
		avail = avail[:1]
	}
	n := copy(p, avail)
	r.pos += n
	if r.style == "with" && r.pos >= r.k {
		r.fails++
		return n, r.err
	}
	return n, nil
}

// opRFault: the reader fails after k bytes, for every k < len(ref).
func opRFault(pi *pkgInfo, c *Cmd) {
	ref := bytesFromInts(c.Ref)
	m := 0
	styles := []string{"after", "with", "byte"}
	for _, kind := range c.Errs {
		for si, style := range styles {
			for k := 0; k < len(ref); k++ {
				// every k with the first style; the other styles on a third of the offsets
				if si > 0 && (k+si+c.Cid)%3 != 0 {
					continue
				}
				if m < c.From {
					m++
					continue
				}
				begin(c.Cid, m, &Event{Ev: "rfault", API: "DecodeBebop", K: ip(k), Kind: kind, Style: style})
				e := &Event{Ev: "rfault", Cid: c.Cid, M: m, API: "DecodeBebop", K: ip(k), Kind: kind, Style: style}
				rec := newRecord(pi.Pid, c.Root)
				fr := &faultReader{data: ref, k: k, err: faultErr(kind), style: style}
				e.Res, e.Msg, e.Big, e.Alloc = call(len(ref), func() error { return rec.DecodeBebop(fr) })
				emit(e)
				m++
			}
		}
	}
}

type faultWriter struct {
	buf    bytes.Buffer
	failAt int // index of the Write call that fails
	calls  int
	err    error
	style  string // "zero": writes nothing and fails; "part": writes half and fails
	after  int    // calls made after the failing one
}

func (w *faultWriter) Write(p []byte) (int, error) {
	i := w.calls
	w.calls++
	if i == w.failAt {
		if w.style == "part" && len(p) > 1 {
			n := len(p) / 2
			w.buf.Write(p[:n])
			return n, w.err
		}
		return 0, w.err
	}
	if i > w.failAt {
		w.after++
		return 0, w.err
	}
	return w.buf.Write(p)
}

// opWFault: the k-th Write fails, for every k below the number of writes of a fault-free run.
func opWFault(pi *pkgInfo, c *Cmd) { opWFaultBase(pi, c, 0) }

func opWFaultBase(pi *pkgInfo, c *Cmd, m0 int) {
	ref := bytesFromInts(c.Ref)
	rec := buildRecord(pi, c.Root, c.V, c.Cid%2 == 0)
	m := m0
	begin(c.Cid, m, &Event{Ev: "wcount", API: "EncodeBebop"})
	w0 := &recWriter{}
	e0 := &Event{Ev: "wcount", Cid: c.Cid, M: m, API: "EncodeBebop"}
	e0.Res, e0.Msg, e0.Big, e0.Alloc = call(len(ref), func() error { return rec.EncodeBebop(w0) })
	e0.Writes = ip(w0.writes)
	e0.Out = ints(w0.buf.Bytes())
	e0.HasOut = true
	emit(e0)
	m++
	for _, kind := range c.Errs {
		for _, style := range []string{"zero", "part"} {
			for k := 0; k < w0.writes; k++ {
				if m < c.From {
					m++
					continue
				}
				begin(c.Cid, m, &Event{Ev: "wfault", API: "EncodeBebop", K: ip(k), Kind: kind, Style: style})
				e := &Event{Ev: "wfault", Cid: c.Cid, M: m, API: "EncodeBebop", K: ip(k), Kind: kind, Style: style}
				fw := &faultWriter{failAt: k, err: faultErr(kind), style: style}
				e.Res, e.Msg, e.Big, e.Alloc = call(len(ref), func() error { return rec.EncodeBebop(fw) })
				e.Written = ints(fw.buf.Bytes())
				emit(e)
				m++
			}
		}
	}
}

func runCmd(c *Cmd) {
	pi := pkgs[c.Pid]
	if pi == nil {
		emit(&Event{Ev: "cmd", Cid: c.Cid, Res: "harness-error", Msg: "unknown package " + c.Pid})
		return
	}
	defer func() {
		if r := recover(); r != nil {
			emit(&Event{Ev: "cmd", Cid: c.Cid, M: -1, Res: "harness-error", Msg: fmt.Sprint(r)})
		}
	}()
	switch c.Op {
	case "codec":
		opCodec(pi, c)
	case "cuts":
		opCuts(pi, c)
	case "corrupt":
		opCorrupt(pi, c)
	case "faults":
		opRFault(pi, c)
		c2 := *c
		c2.From = 0
		opWFaultBase(pi, &c2, 1000000)
	case "rfault":
		opRFault(pi, c)
	case "wfault":
		opWFault(pi, c)
	case "decref":
		// the reference bytes (possibly written under another schema version) into both checked decoders
		ref := bytesFromInts(c.Ref)
		for m, api := range []string{"UnmarshalBebop", "DecodeBebop"} {
			begin(c.Cid, m, &Event{Ev: "dec", API: api, Srcs: []string{"ref"}})
			e := decodeEvent(pi, c, m, api, ref)
			e.Srcs = []string{"ref"}
			emit(e)
		}
		if hasMust(pi, c.Root) {
			begin(c.Cid, 9, &Event{Ev: "dec", API: "MustUnmarshalBebop", Srcs: []string{"ref"}})
			e := decodeEvent(pi, c, 9, "MustUnmarshalBebop", ref)
			e.Srcs = []string{"ref"}
			emit(e)
		}
		// a seekable source (bytes.Reader): a decoder may not take shortcuts that only some readers offer
		{
			begin(c.Cid, 8, &Event{Ev: "dec", API: "DecodeBebop", Srcs: []string{"ref"}, Style: "seekable"})
			e := &Event{Ev: "dec", Cid: c.Cid, M: 8, API: "DecodeBebop", Srcs: []string{"ref"}, Style: "seekable"}
			br := bytes.NewReader(append(append([]byte{}, ref...), trailer...))
			rec := newRecord(pi.Pid, c.Root)
			e.Res, e.Msg, e.Big, e.Alloc = call(len(ref), func() error { return rec.DecodeBebop(br) })
			e.Consumed = ip(len(ref) + len(trailer) - br.Len())
			if e.Res == "nil" {
				v, err := liftRecord(pi, c.Root, rec)
				if err != nil {
					e.Res = "harness-error"
					e.Msg = err.Error()
				} else {
					e.Val = v
					e.HasVal = true
				}
			}
			emit(e)
		}
		// and DecodeBebop under fragmenting readers (the skip of unknown fields must not depend on full reads)
		for i, pat := range [][]int{{1}, {2}, {3, 1}, {7, 2}} {
			m := 2 + i
			begin(c.Cid, m, &Event{Ev: "dec", API: "DecodeBebop", Srcs: []string{"ref"}, Style: "fragmented"})
			e := &Event{Ev: "dec", Cid: c.Cid, M: m, API: "DecodeBebop", Srcs: []string{"ref"}, Style: "fragmented"}
			sr := &schedReader{data: append(append([]byte{}, ref...), trailer...), pattern: pat, ends: []int{len(ref)}}
			rec := newRecord(pi.Pid, c.Root)
			e.Res, e.Msg, e.Big, e.Alloc = call(len(ref), func() error { return rec.DecodeBebop(sr) })
			e.Consumed = ip(sr.pos)
			if e.Res == "nil" {
				v, err := liftRecord(pi, c.Root, rec)
				if err != nil {
					e.Res = "harness-error"
					e.Msg = err.Error()
				} else {
					e.Val = v
					e.HasVal = true
				}
			}
			emit(e)
		}
		if c.Ctx != "" {
			opPadded(pi, c, ref)
		}
	case "stream":
		opStream(pi, c)
	case "evolve":
		opEvolve(pi, c)
	default:
		emit(&Event{Ev: "cmd", Cid: c.Cid, Res: "harness-error", Msg: "unknown op " + c.Op})
	}
}

// Main is the worker loop: commands on stdin, observations on stdout.
func Main() {
	out = bufio.NewWriterSize(os.Stdout, 1<<16)
	if len(os.Args) < 2 {
		fmt.Fprintln(os.Stderr, "usage: worker <packages.ndjson>")
		os.Exit(3)
	}
	f, err := os.Open(os.Args[1])
	if err != nil {
		fmt.Fprintln(os.Stderr, err)
		os.Exit(3)
	}
	sc := bufio.NewScanner(f)
	sc.Buffer(make([]byte, 1<<20), 1<<26)
	for sc.Scan() {
		pi := &pkgInfo{}
		if err := json.Unmarshal(sc.Bytes(), pi); err != nil {
			fmt.Fprintln(os.Stderr, "bad package line:", err)
			os.Exit(3)
		}
		pkgs[pi.Pid] = pi
	}
	f.Close()
	in := bufio.NewReaderSize(os.Stdin, 1<<20)
	for {
		line, err := in.ReadBytes('\n')
		if len(line) > 1 {
			c := &Cmd{}
			if jerr := json.Unmarshal(line, c); jerr != nil {
				fmt.Fprintln(os.Stderr, "bad command:", jerr)
				os.Exit(3)
			}
			runCmd(c)
			fmt.Fprintf(out, "#E %d\n", c.Cid)
			out.Flush()
		}
		if err != nil {
			return
		}
	}
}

// hasDate: does a value of type t contain a date somewhere?
func hasDate(s Schema, t Type, depth int) bool {
	if depth > 12 {
		return false
	}
	switch t.K {
	case "p":
		return t.P == "date"
	case "a":
		return hasDate(s, *t.E, depth+1)
	case "m":
		return t.Key == "date" || hasDate(s, *t.V, depth+1)
	case "r":
		d := s.Def(t.N)
		if d == nil {
			return false
		}
		for _, f := range d.Fields {
			if hasDate(s, f.T, depth+1) {
				return true
			}
		}
		for _, b := range d.Branches {
			if hasDate(s, Type{K: "r", N: b.N}, depth+1) {
				return true
			}
		}
	}
	return false
}

// shiftDates adds ns nanoseconds to every non-zero time reachable from v (not map keys); returns how many it changed.
func shiftDates(v reflect.Value, ns int) int {
	v = readable(v)
	n := 0
	switch v.Kind() {
	case reflect.Struct:
		if v.Type() == timeType {
			sv := settable(v)
			t := sv.Interface().(time.Time)
			if !t.IsZero() {
				sv.Set(reflect.ValueOf(t.Add(time.Duration(ns))))
				return 1
			}
			return 0
		}
		for i := 0; i < v.NumField(); i++ {
			n += shiftDates(v.Field(i), ns)
		}
	case reflect.Ptr:
		if !v.IsNil() {
			n += shiftDates(v.Elem(), ns)
		}
	case reflect.Slice:
		for i := 0; i < v.Len(); i++ {
			n += shiftDates(v.Index(i), ns)
		}
	case reflect.Map:
		it := v.MapRange()
		for it.Next() {
			k := it.Key()
			if k.Kind() == reflect.Float32 || k.Kind() == reflect.Float64 {
				if f := k.Float(); f != f {
					continue // an entry under a NaN key can be iterated but neither looked up nor replaced
				}
			}
			e := reflect.New(v.Type().Elem()).Elem()
			e.Set(it.Value())
			if c := shiftDates(e, ns); c > 0 {
				v.SetMapIndex(k, e)
				n += c
			}
		}
	}
	return n
}

// padUnknown returns ref with one more field in the message that starts at off: index 200 (unknown to every schema of
// the universe and higher than all of theirs), a byte array of n bytes - what a still newer peer with
// "200 -> byte[] blob" would send. The length prefixes at outer (enclosing message / union bodies) grow with it.
func padUnknown(ref []byte, off int, outer []int, n int) []byte {
	le := func(b []byte) int { return int(b[0]) | int(b[1])<<8 | int(b[2])<<16 | int(b[3])<<24 }
	put := func(b []byte, v int) { b[0], b[1], b[2], b[3] = byte(v), byte(v>>8), byte(v>>16), byte(v>>24) }
	if off+4 > len(ref) {
		return nil
	}
	end := off + 4 + le(ref[off:])
	if end > len(ref) || end-1 < off+4 || ref[end-1] != 0 {
		return nil
	}
	field := make([]byte, 5+n)
	field[0] = 200
	put(field[1:], n)
	for i := 5; i < len(field); i++ {
		field[i] = 0xAB
	}
	out := append(append(append([]byte{}, ref[:end-1]...), field...), ref[end-1:]...)
	put(out[off:], le(ref[off:])+len(field))
	for _, o := range outer {
		put(out[o:], le(ref[o:])+len(field))
	}
	return out
}

// opPadded (C04): the evolved message carries, besides what the newer schema of the pair adds, an unknown field that is
// larger than any buffer a decoder is likely to use. DecodeBebop must skip it: same value as without it, all consumed,
// and what follows the message in its container intact.
func opPadded(pi *pkgInfo, c *Cmd, ref []byte) {
	has := func(p string) bool { return strings.HasPrefix(c.Ctx, p) }
	le := func(b []byte) int { return int(b[0]) | int(b[1])<<8 | int(b[2])<<16 | int(b[3])<<24 }
	var padded func(n int) []byte
	switch {
	case has("top"):
		padded = func(n int) []byte { return padUnknown(ref, 0, nil, n) }
	case has("msgfield"), has("unionbranch"):
		if len(ref) < 6 || ref[4] != 1 {
			return
		}
		padded = func(n int) []byte { return padUnknown(ref, 5, []int{0}, n) }
	case has("structfield"):
		padded = func(n int) []byte { return padUnknown(ref, 1, nil, n) }
	case has("array"):
		if len(ref) < 4 || le(ref) == 0 {
			return
		}
		padded = func(n int) []byte { return padUnknown(ref, 4, nil, n) }
	case has("mapvalue"):
		if len(ref) < 4 || le(ref) == 0 {
			return
		}
		padded = func(n int) []byte { return padUnknown(ref, 8, nil, n) }
	default:
		return
	}
	plain := newRecord(pi.Pid, c.Root)
	if r0, _, _, _ := call(len(ref), func() error { return plain.DecodeBebop(bytes.NewReader(ref)) }); r0 != "nil" {
		return // (judged by the events above)
	}
	want, err := liftRecord(pi, c.Root, plain)
	if err != nil {
		return
	}
	wantJ, _ := json.Marshal(want)
	m := 20
	for _, n := range []int{100, 4097, 70001} {
		in := padded(n)
		if in == nil {
			return
		}
		for _, style := range []string{"as much as asked", "bytes.Reader", "7,2 bytes per Read"} {
			begin(c.Cid, m, &Event{Ev: "padded", API: "DecodeBebop", K: ip(n), Style: style})
			e := &Event{Ev: "padded", Cid: c.Cid, M: m, API: "DecodeBebop", K: ip(n), Style: style, N: ip(len(in))}
			data := append(append([]byte{}, in...), trailer...)
			var r io.Reader
			var pos func() int
			switch style {
			case "bytes.Reader":
				br := bytes.NewReader(data)
				r, pos = br, func() int { return len(data) - br.Len() }
			case "7,2 bytes per Read":
				sr := &schedReader{data: data, pattern: []int{7, 2}}
				r, pos = sr, func() int { return sr.pos }
			default:
				pr := &posReader{data: data}
				r, pos = pr, func() int { return pr.pos }
			}
			got := newRecord(pi.Pid, c.Root)
			e.Res, e.Msg, e.Big, e.Alloc = call(len(data), func() error { return got.DecodeBebop(r) })
			e.Consumed = ip(pos())
			same := false
			if e.Res == "nil" {
				if v, err := liftRecord(pi, c.Root, got); err == nil {
					gj, _ := json.Marshal(v)
					same = bytes.Equal(gj, wantJ)
				}
			}
			e.TailOK = bp(same)
			emit(e)
			m++
		}
	}
}
