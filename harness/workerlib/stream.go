package workerlib

func opStream(pi *pkgInfo, c *Cmd) {
	emit(&Event{Ev: "cmd", Cid: c.Cid, Res: "harness-error", Msg: "stream op not built yet"})
}

func opEvolve(pi *pkgInfo, c *Cmd) {
	emit(&Event{Ev: "cmd", Cid: c.Cid, Res: "harness-error", Msg: "evolve op not built yet"})
}
