package workerlib

import (
	"bytes"
	"errors"
	"io"

	"github.com/200sc/bebop"
)

var errOverask = errors.New("verif: the decoder asked for bytes beyond the end of the record (would block on a live connection)")

// schedReader owns a stream of back-to-back records and knows where each ends.
// pattern caps the bytes one Read may return (applied cyclically; empty = no cap).
// starved: nothing beyond the end of the current record is delivered; a Read
// issued when the current record is exhausted is answered with errOverask.
type schedReader struct {
	data    []byte
	pos     int
	pattern []int
	pi      int
	ends    []int
	cur     int
	starved bool
	overask bool
	reads   int
	log     func(req, got int)
}

func (r *schedReader) Read(p []byte) (int, error) {
	if len(p) == 0 {
		return 0, nil
	}
	r.reads++
	limit := len(r.data)
	if r.starved {
		limit = r.ends[r.cur]
	}
	if r.pos >= limit {
		if r.log != nil {
			r.log(len(p), 0)
		}
		if r.starved {
			r.overask = true
			return 0, errOverask
		}
		return 0, io.EOF
	}
	n := limit - r.pos
	if n > len(p) {
		n = len(p)
	}
	if len(r.pattern) > 0 {
		c := r.pattern[r.pi%len(r.pattern)]
		r.pi++
		if n > c {
			n = c
		}
	}
	copy(p, r.data[r.pos:r.pos+n])
	r.pos += n
	if r.log != nil {
		r.log(len(p), n)
	}
	return n, nil
}

// opStream: several records back to back on one stream, read back with
// DecodeBebop under every fragmentation pattern, greedy and starved.
func opStream(pi *pkgInfo, c *Cmd) {
	vals := append([]Val{c.V}, c.Seq...)
	recs := make([]bebop.Record, len(vals))
	for i, v := range vals {
		recs[i] = buildRecord(pi, c.Root, v, (c.Cid+i)%2 == 0)
	}
	type stream struct {
		kind string
		data []byte
		ends []int
	}
	var streams []stream
	// reference stream: the specification's bytes
	{
		var b []byte
		var ends []int
		b = append(b, bytesFromInts(c.Ref)...)
		ends = append(ends, len(b))
		for _, e := range c.SeqEnc {
			b = append(b, bytesFromInts(e)...)
			ends = append(ends, len(b))
		}
		streams = append(streams, stream{"ref", b, ends})
	}
	// the real encoder writing the records back to back
	m := 0
	{
		var buf bytes.Buffer
		var ends []int
		ok := true
		for i, rec := range recs {
			begin(c.Cid, m, &Event{Ev: "swrite", API: "EncodeBebop", Rec: ip(i)})
			e := &Event{Ev: "swrite", Cid: c.Cid, M: m, API: "EncodeBebop", Rec: ip(i)}
			rec := rec
			e.Res, e.Msg, e.Big, e.Alloc = call(64, func() error { return rec.EncodeBebop(&buf) })
			if e.Res != "nil" {
				ok = false
			}
			ends = append(ends, buf.Len())
			emit(e)
			m++
		}
		if ok {
			streams = append(streams, stream{"enc", buf.Bytes(), ends})
		}
	}
	// every stream is also read through a seekable bytes.Reader (io.Seeker, io.ByteReader, io.WriterTo ...)
	for _, st := range streams {
		br := bytes.NewReader(append(append([]byte{}, st.data...), trailer...))
		total := len(st.data) + len(trailer)
		start := 0
		for i := range vals {
			begin(c.Cid, m, &Event{Ev: "srec", API: "DecodeBebop", Kind: st.kind, Style: "seekable", Sched: ip(0), Rec: ip(i)})
			e := &Event{Ev: "srec", Cid: c.Cid, M: m, API: "DecodeBebop", Kind: st.kind, Style: "seekable", Sched: ip(0), Rec: ip(i)}
			rec := newRecord(pi.Pid, c.Root)
			e.Res, e.Msg, e.Big, e.Alloc = call(total, func() error { return rec.DecodeBebop(br) })
			pos := total - br.Len()
			e.Consumed = ip(pos - start)
			n := st.ends[i]
			if i > 0 {
				n -= st.ends[i-1]
			}
			e.N = ip(n)
			if e.Res == "nil" {
				v, err := liftRecord(pi, c.Root, rec)
				if err != nil {
					e.Res = "harness-error"
					e.Msg = err.Error()
				} else {
					e.Val = v
					e.HasVal = true
				}
			}
			emit(e)
			m++
			start = pos
			if e.Res != "nil" {
				break
			}
		}
	}
	scheds := append([][]int{nil}, c.Scheds...)
	for _, st := range streams {
		for si, pat := range scheds {
			for _, starved := range []bool{false, true} {
				// the real-encoder stream is read greedily and starved under a third of the patterns
				if st.kind == "enc" && si%3 != c.Cid%3 {
					continue
				}
				style := "greedy"
				if starved {
					style = "starved"
				}
				data := st.data
				if !starved {
					data = append(append([]byte{}, st.data...), trailer...)
				}
				r := &schedReader{data: data, pattern: pat, ends: st.ends, starved: starved}
				// read-level trace (validated against StreamAbs) for the unfragmented run and one pattern
				traced := st.kind == "ref" && (si == 0 || si == 1+c.Cid%len(scheds[1:]))
				if traced {
					emit(&Event{Ev: "sbegin", Cid: c.Cid, M: m, Res: "nil", Ends: st.ends, Style: style, Sched: ip(si)})
					logged := 0
					r.log = func(req, got int) {
						// a decoder that has lost its place may loop over a garbage count: keep the trace finite
						if logged < 2000 {
							emit(&Event{Ev: "sread", Cid: c.Cid, M: m, Res: "nil", Req: ip(req), Got: ip(got)})
						}
						logged++
					}
				}
				start := 0
				for i := range vals {
					r.cur = i
					r.overask = false
					begin(c.Cid, m, &Event{Ev: "srec", API: "DecodeBebop", Kind: st.kind, Style: style, Sched: ip(si), Rec: ip(i)})
					e := &Event{Ev: "srec", Cid: c.Cid, M: m, API: "DecodeBebop", Kind: st.kind, Style: style, Sched: ip(si), Rec: ip(i)}
					rec := newRecord(pi.Pid, c.Root)
					e.Res, e.Msg, e.Big, e.Alloc = call(len(data), func() error { return rec.DecodeBebop(r) })
					e.Consumed = ip(r.pos - start)
					n := st.ends[i]
					if i > 0 {
						n -= st.ends[i-1]
					}
					e.N = ip(n)
					e.Overask = r.overask
					if e.Res == "nil" {
						v, err := liftRecord(pi, c.Root, rec)
						if err != nil {
							e.Res = "harness-error"
							e.Msg = err.Error()
						} else {
							e.Val = v
							e.HasVal = true
						}
					}
					emit(e)
					if traced && e.Res == "nil" {
						emit(&Event{Ev: "sret", Cid: c.Cid, M: m, Res: "nil", Rec: ip(i)})
					}
					m++
					// the next record is read from where the stream now stands (a mis-read propagates, as it would for a user)
					start = r.pos
					if e.Res != "nil" {
						break
					}
				}
			}
		}
	}
}

func opEvolve(pi *pkgInfo, c *Cmd) {
	emit(&Event{Ev: "cmd", Cid: c.Cid, Res: "harness-error", Msg: "evolve op not built yet"})
}
