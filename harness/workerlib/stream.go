package workerlib

import (
	"bytes"
	"errors"
	"io"
	"reflect"
	"sort"
	"unsafe"

	"github.com/200sc/bebop"
)

var errOverask = errors.New("verif: the decoder asked for bytes beyond the end of the record (would block on a live connection)")

// schedReader owns a stream of back-to-back records and knows where each ends.
// pattern caps the bytes one Read may return (applied cyclically; empty = no cap).
// starved: nothing beyond the end of the current record is delivered; a Read
// issued when the current record is exhausted is answered with errOverask.
type schedReader struct {
	data    []byte
	pos     int
	pattern []int
	pi      int
	ends    []int
	cur     int
	starved bool
	dataEOF bool // the Read that delivers the last byte of the data returns io.EOF with it (as iotest.DataErrReader does)
	overask bool
	reads   int
	log     func(req, got int)
}

func (r *schedReader) Read(p []byte) (int, error) {
	if len(p) == 0 {
		return 0, nil
	}
	r.reads++
	limit := len(r.data)
	if r.starved {
		limit = r.ends[r.cur]
	}
	if r.pos >= limit {
		if r.log != nil {
			r.log(len(p), 0)
		}
		if r.starved {
			r.overask = true
			return 0, errOverask
		}
		return 0, io.EOF
	}
	n := limit - r.pos
	if n > len(p) {
		n = len(p)
	}
	if len(r.pattern) > 0 {
		c := r.pattern[r.pi%len(r.pattern)]
		r.pi++
		if n > c {
			n = c
		}
	}
	copy(p, r.data[r.pos:r.pos+n])
	r.pos += n
	if r.log != nil {
		r.log(len(p), n)
	}
	if r.dataEOF && r.pos == len(r.data) {
		return n, io.EOF
	}
	return n, nil
}

// opStream: several records back to back on one stream, read back with
// DecodeBebop under every fragmentation pattern, greedy and starved.
func opStream(pi *pkgInfo, c *Cmd) {
	vals := append([]Val{c.V}, c.Seq...)
	recs := make([]bebop.Record, len(vals))
	for i, v := range vals {
		recs[i] = buildRecord(pi, c.Root, v, (c.Cid+i)%2 == 0)
	}
	type stream struct {
		kind string
		data []byte
		ends []int
	}
	var streams []stream
	// reference stream: the specification's bytes
	{
		var b []byte
		var ends []int
		b = append(b, bytesFromInts(c.Ref)...)
		ends = append(ends, len(b))
		for _, e := range c.SeqEnc {
			b = append(b, bytesFromInts(e)...)
			ends = append(ends, len(b))
		}
		streams = append(streams, stream{"ref", b, ends})
	}
	// the real encoder writing the records back to back
	m := 0
	{
		var buf bytes.Buffer
		var ends []int
		ok := true
		for i, rec := range recs {
			begin(c.Cid, m, &Event{Ev: "swrite", API: "EncodeBebop", Rec: ip(i)})
			e := &Event{Ev: "swrite", Cid: c.Cid, M: m, API: "EncodeBebop", Rec: ip(i)}
			rec := rec
			e.Res, e.Msg, e.Big, e.Alloc = call(64, func() error { return rec.EncodeBebop(&buf) })
			if e.Res != "nil" {
				ok = false
			}
			ends = append(ends, buf.Len())
			emit(e)
			m++
		}
		if ok {
			streams = append(streams, stream{"enc", buf.Bytes(), ends})
		}
	}
	// every stream is also read through a seekable bytes.Reader (io.Seeker, io.ByteReader, io.WriterTo ...)
	for _, st := range streams {
		br := bytes.NewReader(append(append([]byte{}, st.data...), trailer...))
		total := len(st.data) + len(trailer)
		start := 0
		for i := range vals {
			begin(c.Cid, m, &Event{Ev: "srec", API: "DecodeBebop", Kind: st.kind, Style: "seekable", Sched: ip(0), Rec: ip(i)})
			e := &Event{Ev: "srec", Cid: c.Cid, M: m, API: "DecodeBebop", Kind: st.kind, Style: "seekable", Sched: ip(0), Rec: ip(i)}
			rec := newRecord(pi.Pid, c.Root)
			e.Res, e.Msg, e.Big, e.Alloc = call(total, func() error { return rec.DecodeBebop(br) })
			pos := total - br.Len()
			e.Consumed = ip(pos - start)
			n := st.ends[i]
			if i > 0 {
				n -= st.ends[i-1]
			}
			e.N = ip(n)
			if e.Res == "nil" {
				v, err := liftRecord(pi, c.Root, rec)
				if err != nil {
					e.Res = "harness-error"
					e.Msg = err.Error()
				} else {
					e.Val = v
					e.HasVal = true
				}
			}
			emit(e)
			m++
			start = pos
			if e.Res != "nil" {
				break
			}
		}
	}
	scheds := append([][]int{nil}, c.Scheds...)
	for _, st := range streams {
		for si, pat := range scheds {
			for mode := 0; mode < 3; mode++ {
				starved := mode == 1
				dataEOF := mode == 2
				// the real-encoder stream is read greedily and starved under a third of the patterns
				if st.kind == "enc" && si%3 != c.Cid%3 {
					continue
				}
				style := "greedy"
				if starved {
					style = "starved"
				}
				data := st.data
				if mode == 0 {
					data = append(append([]byte{}, st.data...), trailer...)
				}
				if dataEOF {
					// the stream ends with the last record and its last bytes arrive together with io.EOF
					style = "last bytes with io.EOF"
					if st.kind != "ref" {
						continue
					}
				}
				r := &schedReader{data: data, pattern: pat, ends: st.ends, starved: starved, dataEOF: dataEOF}
				// read-level trace (validated against StreamAbs) for the unfragmented run and one pattern
				traced := !dataEOF && st.kind == "ref" && (si == 0 || si == 1+c.Cid%len(scheds[1:]))
				if traced {
					emit(&Event{Ev: "sbegin", Cid: c.Cid, M: m, Res: "nil", Ends: st.ends, Style: style, Sched: ip(si)})
					logged := 0
					r.log = func(req, got int) {
						// a decoder that has lost its place may loop over a garbage count: keep the trace finite
						if logged < 2000 {
							emit(&Event{Ev: "sread", Cid: c.Cid, M: m, Res: "nil", Req: ip(req), Got: ip(got)})
						} else if logged == 2000 {
							emit(&Event{Ev: "sabort", Cid: c.Cid, M: m, Res: "nil"})
						}
						logged++
					}
				}
				start := 0
				for i := range vals {
					r.cur = i
					r.overask = false
					begin(c.Cid, m, &Event{Ev: "srec", API: "DecodeBebop", Kind: st.kind, Style: style, Sched: ip(si), Rec: ip(i)})
					e := &Event{Ev: "srec", Cid: c.Cid, M: m, API: "DecodeBebop", Kind: st.kind, Style: style, Sched: ip(si), Rec: ip(i)}
					rec := newRecord(pi.Pid, c.Root)
					e.Res, e.Msg, e.Big, e.Alloc = call(len(data), func() error { return rec.DecodeBebop(r) })
					e.Consumed = ip(r.pos - start)
					n := st.ends[i]
					if i > 0 {
						n -= st.ends[i-1]
					}
					e.N = ip(n)
					e.Overask = r.overask
					if e.Res == "nil" {
						v, err := liftRecord(pi, c.Root, rec)
						if err != nil {
							e.Res = "harness-error"
							e.Msg = err.Error()
						} else {
							e.Val = v
							e.HasVal = true
						}
					}
					emit(e)
					if traced && e.Res == "nil" {
						emit(&Event{Ev: "sret", Cid: c.Cid, M: m, Res: "nil", Rec: ip(i)})
					}
					m++
					// the next record is read from where the stream now stands (a mis-read propagates, as it would for a user)
					start = r.pos
					if e.Res != "nil" {
						break
					}
				}
			}
		}
	}
	// payloads beyond buffer sizes, for the first value of each package's schema only
	if c.Big {
		opBigStream(pi, c, m)
	}
}

// stretch replaces the first string and the first byte slice reachable in v (through pointers, struct fields,
// slices of records) by n patterned bytes; it reports whether it found one.
func stretch(v reflect.Value, n int, depth int, done *[2]bool) {
	if depth > 4 {
		return
	}
	switch v.Kind() {
	case reflect.Ptr:
		if !v.IsNil() {
			stretch(v.Elem(), n, depth+1, done)
		}
	case reflect.Struct:
		for i := 0; i < v.NumField(); i++ {
			f := v.Field(i)
			if !f.CanSet() {
				f = reflect.NewAt(f.Type(), unsafe.Pointer(f.UnsafeAddr())).Elem()
			}
			stretch(f, n, depth+1, done)
		}
	case reflect.String:
		if !done[0] && v.Type().Kind() == reflect.String {
			b := make([]byte, n)
			for i := range b {
				b[i] = byte(33 + i%89)
			}
			v.SetString(string(b))
			done[0] = true
		}
	case reflect.Slice:
		if v.Type().Elem().Kind() == reflect.Uint8 && v.Type().Elem() == reflect.TypeOf(byte(0)) {
			if !done[1] {
				b := make([]byte, n)
				for i := range b {
					b[i] = byte(i % 251)
				}
				v.Set(reflect.ValueOf(b).Convert(v.Type()))
				done[1] = true
			}
			return
		}
		if v.Len() > 0 {
			stretch(v.Index(0), n, depth+1, done)
		}
	}
}

func sortedBytes(b []byte) []byte {
	out := append([]byte{}, b...)
	sort.Slice(out, func(i, j int) bool { return out[i] < out[j] })
	return out
}

// opBigStream: payloads longer than any buffer a decoder is likely to use. The specification's value is stretched
// in place (first string, first byte array), encoded by the real encoder (checked against Size()), written twice
// to a stream and read back with DecodeBebop through readers that hand out as much as is asked for, 1000 bytes at
// a time, or everything at once with io.EOF.
func opBigStream(pi *pkgInfo, c *Cmd, m0 int) {
	m := m0
	for _, n := range []int{4097, 5000, 8193, 70001} {
		rec := buildRecord(pi, c.Root, c.V, false)
		var done [2]bool
		stretch(reflect.ValueOf(rec), n, 0, &done)
		if !done[0] && !done[1] {
			return // nothing to stretch in this shape
		}
		var enc []byte
		res, _, _, _ := call(4*n+1024, func() error { enc = rec.MarshalBebop(); return nil })
		if res != "nil" || len(enc) != rec.Size() {
			emit(&Event{Ev: "bigrec", Cid: c.Cid, M: m, Res: res, API: "MarshalBebop", K: ip(n), Style: "encode", Rec: ip(0), N: ip(rec.Size()), Consumed: ip(len(enc)), TailOK: bp(false)})
			m++
			continue
		}
		{
			// the byte decoder on the same bytes
			begin(c.Cid, m, &Event{Ev: "bigrec", API: "UnmarshalBebop", K: ip(n), Style: "byte slice", Rec: ip(0)})
			e := &Event{Ev: "bigrec", Cid: c.Cid, M: m, API: "UnmarshalBebop", K: ip(n), Style: "byte slice", Rec: ip(0), N: ip(len(enc)), Consumed: ip(len(enc))}
			got := newRecord(pi.Pid, c.Root)
			e.Res, e.Msg, e.Big, e.Alloc = call(len(enc), func() error { return got.UnmarshalBebop(enc) })
			same := false
			if e.Res == "nil" {
				var back []byte
				r2, _, _, _ := call(4*n+1024, func() error { back = got.MarshalBebop(); return nil })
				same = r2 == "nil" && bytes.Equal(sortedBytes(back), sortedBytes(enc))
			}
			e.TailOK = bp(same)
			emit(e)
			m++
		}
		data := append(append(append([]byte{}, enc...), enc...), trailer...)
		for _, style := range []string{"as much as asked", "1000 bytes per Read", "bytes.Reader", "last bytes with io.EOF"} {
			var r io.Reader
			var pos func() int
			switch style {
			case "bytes.Reader":
				br := bytes.NewReader(data)
				r, pos = br, func() int { return len(data) - br.Len() }
			case "1000 bytes per Read":
				sr := &schedReader{data: data, pattern: []int{1000}}
				r, pos = sr, func() int { return sr.pos }
			case "last bytes with io.EOF":
				sr := &schedReader{data: data[:2*len(enc)], dataEOF: true}
				r, pos = sr, func() int { return sr.pos }
			default:
				sr := &schedReader{data: data}
				r, pos = sr, func() int { return sr.pos }
			}
			start := 0
			for i := 0; i < 2; i++ {
				begin(c.Cid, m, &Event{Ev: "bigrec", API: "DecodeBebop", K: ip(n), Style: style, Rec: ip(i)})
				e := &Event{Ev: "bigrec", Cid: c.Cid, M: m, API: "DecodeBebop", K: ip(n), Style: style, Rec: ip(i), N: ip(len(enc))}
				got := newRecord(pi.Pid, c.Root)
				e.Res, e.Msg, e.Big, e.Alloc = call(len(data), func() error { return got.DecodeBebop(r) })
				e.Consumed = ip(pos() - start)
				same := false
				if e.Res == "nil" {
					var back []byte
					r2, _, _, _ := call(4*n+1024, func() error { back = got.MarshalBebop(); return nil })
					// equal values encode to the same bytes up to the order of map entries
					same = r2 == "nil" && bytes.Equal(sortedBytes(back), sortedBytes(enc))
				}
				e.TailOK = bp(same)
				emit(e)
				m++
				start = pos()
				if e.Res != "nil" {
					break
				}
			}
		}
	}
}

func opEvolve(pi *pkgInfo, c *Cmd) {
	emit(&Event{Ev: "cmd", Cid: c.Cid, Res: "harness-error", Msg: "evolve op not built yet"})
}
