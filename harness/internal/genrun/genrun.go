// Package genrun drives the REAL generator (bebop.ReadFile + File.Generate
// from /repo's working tree) over abstract schemas, compiles what it emits,
// and links the compiled packages into a worker binary.
package genrun

import (
	"bytes"
	"fmt"
	"os"
	"os/exec"
	"path/filepath"
	"regexp"
	"sort"
	"strings"
	"sync"

	"github.com/200sc/bebop"

	"verif/harness/internal/abs"
)

type Plan struct {
	Pid    string     // package id, e.g. "p17"
	Sid    int        // schema id (for bookkeeping)
	Schema abs.Schema // abstract schema
	Text   string     // .bop text (rendered from Schema unless given)
	Opts   []string   // generator option names
	// schemas with imports: the other files (relative path -> text); the root is then read from a real file so that
	// Generate resolves the imports relative to it. SrcDir is set by Build.
	Files  map[string]string
	SrcDir string
}

type Built struct {
	Plan     *Plan
	ReadErr  string // ReadFile error ("" if accepted)
	GenErr   string // Generate error
	Panic    string // panic in ReadFile/Generate
	Accepted bool
	Compiles bool
	Diag     string   // compiler diagnostics if !Compiles
	GoTypes  []string // record type names found in the generated file
	GoFile   string
	Warnings []string
}

func Settings(pkg string, opts []string) bebop.GenerateSettings {
	s := bebop.GenerateSettings{PackageName: pkg}
	for _, o := range opts {
		switch o {
		case "AlwaysUsePointerReceivers":
			s.AlwaysUsePointerReceivers = true
		case "PrivateDefinitions":
			s.PrivateDefinitions = true
		case "GenerateFieldTags":
			s.GenerateFieldTags = true
		case "GenerateUnsafeMethods":
			s.GenerateUnsafeMethods = true
		case "SharedMemoryStrings":
			s.SharedMemoryStrings = true
		case "Combined":
			s.ImportGenerationMode = bebop.ImportGenerationModeCombined
		}
	}
	return s
}

var recRe = regexp.MustCompile(`(?m)^var _ bebop\.Record = &(\w+)\{\}`)

// GenerateOne runs ReadFile and Generate on the plan's text.
func GenerateOne(p *Plan) (b *Built, src []byte) {
	b = &Built{Plan: p}
	defer func() {
		if r := recover(); r != nil {
			b.Panic = fmt.Sprint(r)
			b.Accepted = false
		}
	}()
	if p.Text == "" {
		p.Text = abs.Render(p.Schema)
	}
	var f bebop.File
	var warns []string
	var err error
	if len(p.Files) > 0 && p.SrcDir != "" {
		if err = os.MkdirAll(p.SrcDir, 0o755); err == nil {
			for name, text := range p.Files {
				_ = os.WriteFile(filepath.Join(p.SrcDir, name), []byte(text), 0o644)
			}
			rp := filepath.Join(p.SrcDir, "root.bop")
			_ = os.WriteFile(rp, []byte(p.Text), 0o644)
			var fh *os.File
			if fh, err = os.Open(rp); err == nil {
				f, warns, err = bebop.ReadFile(fh)
				fh.Close()
			}
		}
	} else {
		f, warns, err = bebop.ReadFile(strings.NewReader(p.Text))
	}
	b.Warnings = warns
	if err != nil {
		b.ReadErr = err.Error()
		return b, nil
	}
	var out bytes.Buffer
	if err := f.Generate(&out, Settings(p.Pid, p.Opts)); err != nil {
		b.GenErr = err.Error()
		return b, nil
	}
	b.Accepted = true
	for _, m := range recRe.FindAllSubmatch(out.Bytes(), -1) {
		b.GoTypes = append(b.GoTypes, string(m[1]))
	}
	return b, out.Bytes()
}

type Workspace struct {
	Dir    string
	Builts map[string]*Built
	Worker string // path of the worker binary
}

var goMod = `module verifwork

go 1.21

require (
	github.com/200sc/bebop v0.0.0
	verif/harness v0.0.0
)

replace github.com/200sc/bebop => ` + RepoDir() + `

replace verif/harness => ` + harnessDir() + `
`

// RepoDir is the checkout of 200sc/bebop under verification: /repo, unless VERIF_REPO
// names another one (bin/seedtest runs seeded changes in a scratch worktree).
func RepoDir() string {
	if r := os.Getenv("VERIF_REPO"); r != "" {
		return r
	}
	return "/repo"
}

func harnessDir() string {
	if r := os.Getenv("VERIF_ROOT"); r != "" {
		return r + "/harness"
	}
	return "/verif/harness"
}

// GoEnv is the environment of every go build the harness starts. The build cache is private to the run
// (VERIF_GOCACHE, set by the driver to a directory inside the run's work directory, removed with it): thousands of
// generated packages per run would otherwise pile up in the shared cache, which Go trims only after days.
func GoEnv() []string {
	env := os.Environ()
	env = append(env, "GOFLAGS=-mod=mod", "GOPROXY=off", "GOSUMDB=off", "GOTOOLCHAIN=local")
	if gc := os.Getenv("VERIF_GOCACHE"); gc != "" {
		env = append(env, "GOCACHE="+gc)
	}
	return env
}

func goEnv() []string { return GoEnv() }

// Build generates every plan, compiles the generated files alone (the C12
// oracle), then adds registries and links the worker.
func Build(dir string, plans []*Plan, needWorker bool) (*Workspace, error) {
	ws := &Workspace{Dir: dir, Builts: map[string]*Built{}}
	if err := os.MkdirAll(filepath.Join(dir, "gen"), 0o755); err != nil {
		return nil, err
	}
	if err := os.WriteFile(filepath.Join(dir, "go.mod"), []byte(goMod), 0o644); err != nil {
		return nil, err
	}
	var mu sync.Mutex
	var wg sync.WaitGroup
	sem := make(chan struct{}, 16)
	var firstErr error
	for _, p := range plans {
		p := p
		wg.Add(1)
		sem <- struct{}{}
		go func() {
			defer wg.Done()
			defer func() { <-sem }()
			if len(p.Files) > 0 {
				p.SrcDir = filepath.Join(dir, "src", p.Pid)
			}
			b, src := GenerateOne(p)
			if b.Accepted {
				pd := filepath.Join(dir, "gen", p.Pid)
				if err := os.MkdirAll(pd, 0o755); err == nil {
					b.GoFile = filepath.Join(pd, "s.go")
					err = os.WriteFile(b.GoFile, src, 0o644)
					if err != nil {
						mu.Lock()
						firstErr = err
						mu.Unlock()
					}
					_ = os.WriteFile(filepath.Join(pd, "s.bop"), []byte(p.Text), 0o644)
				}
			}
			mu.Lock()
			ws.Builts[p.Pid] = b
			mu.Unlock()
		}()
	}
	wg.Wait()
	if firstErr != nil {
		return nil, firstErr
	}
	// compile the generated files alone
	anyAccepted := false
	for _, b := range ws.Builts {
		if b.Accepted {
			anyAccepted = true
			b.Compiles = true
		}
	}
	if !anyAccepted {
		return ws, nil
	}
	cmd := exec.Command("go", "build", "./gen/...")
	cmd.Dir = dir
	cmd.Env = goEnv()
	out, err := cmd.CombinedOutput()
	if err != nil && (bytes.Contains(out, []byte("no space left on device")) || bytes.Contains(out, []byte("cannot allocate memory"))) {
		return nil, fmt.Errorf("go build of generated code failed for lack of resources, not because of the code: %s", firstLines(out, 3))
	}
	if err != nil {
		// attribute diagnostics to packages
		cur := ""
		found := false
		for _, line := range strings.Split(string(out), "\n") {
			if strings.HasPrefix(line, "# verifwork/gen/") {
				cur = strings.TrimPrefix(line, "# verifwork/gen/")
				cur = strings.Fields(cur)[0]
				if b := ws.Builts[cur]; b != nil {
					b.Compiles = false
					found = true
				}
				continue
			}
			if cur != "" && line != "" {
				if b := ws.Builts[cur]; b != nil && len(b.Diag) < 2000 {
					b.Diag += line + "\n"
				}
			}
		}
		if !found {
			return nil, fmt.Errorf("go build of generated code failed without package attribution: %v\n%s", err, out)
		}
	}
	if !needWorker {
		return ws, nil
	}
	// registries + worker main
	var pids []string
	for pid, b := range ws.Builts {
		if b.Accepted && b.Compiles {
			pids = append(pids, pid)
		}
	}
	sort.Strings(pids)
	var main strings.Builder
	main.WriteString("package main\n\nimport (\n\twl \"verif/harness/workerlib\"\n")
	for _, pid := range pids {
		fmt.Fprintf(&main, "\t%s \"verifwork/gen/%s\"\n", pid, pid)
	}
	main.WriteString(")\n\nfunc main() {\n")
	for _, pid := range pids {
		b := ws.Builts[pid]
		var reg strings.Builder
		fmt.Fprintf(&reg, "package %s\n\nimport \"github.com/200sc/bebop\"\n\n", pid)
		reg.WriteString("// VerifRecords lists constructors of every generated record type.\n")
		reg.WriteString("var VerifRecords = map[string]func() bebop.Record{\n")
		for _, t := range b.GoTypes {
			fmt.Fprintf(&reg, "\t%q: func() bebop.Record { return &%s{} },\n", t, t)
		}
		reg.WriteString("}\n")
		if err := os.WriteFile(filepath.Join(dir, "gen", pid, "reg.go"), []byte(reg.String()), 0o644); err != nil {
			return nil, err
		}
		fmt.Fprintf(&main, "\twl.Register(%q, %s.VerifRecords)\n", pid, pid)
	}
	main.WriteString("\twl.Main()\n}\n")
	wd := filepath.Join(dir, "worker")
	if err := os.MkdirAll(wd, 0o755); err != nil {
		return nil, err
	}
	if err := os.WriteFile(filepath.Join(wd, "main.go"), []byte(main.String()), 0o644); err != nil {
		return nil, err
	}
	ws.Worker = filepath.Join(dir, "worker.bin")
	cmd = exec.Command("go", "build", "-tags", "verif", "-o", ws.Worker, "./worker")
	cmd.Dir = dir
	cmd.Env = goEnv()
	if out, err := cmd.CombinedOutput(); err != nil {
		return nil, fmt.Errorf("building worker failed: %v\n%s", err, out)
	}
	return ws, nil
}

// BuildSources compiles stand-alone generated files (one package each) and
// returns the compiler's diagnostics per key ("" = compiles).
func BuildSources(dir string, srcs map[string][]byte) (map[string]string, error) {
	if err := os.MkdirAll(filepath.Join(dir, "gen"), 0o755); err != nil {
		return nil, err
	}
	if err := os.WriteFile(filepath.Join(dir, "go.mod"), []byte(goMod), 0o644); err != nil {
		return nil, err
	}
	diag := map[string]string{}
	for k, src := range srcs {
		pd := filepath.Join(dir, "gen", k)
		if err := os.MkdirAll(pd, 0o755); err != nil {
			return nil, err
		}
		if err := os.WriteFile(filepath.Join(pd, "s.go"), src, 0o644); err != nil {
			return nil, err
		}
		diag[k] = ""
	}
	if len(srcs) == 0 {
		return diag, nil
	}
	cmd := exec.Command("go", "build", "./gen/...")
	cmd.Dir = dir
	cmd.Env = goEnv()
	out, err := cmd.CombinedOutput()
	if err != nil && (bytes.Contains(out, []byte("no space left on device")) || bytes.Contains(out, []byte("cannot allocate memory"))) {
		return nil, fmt.Errorf("go build of generated code failed for lack of resources, not because of the code: %s", firstLines(out, 3))
	}
	if err != nil {
		cur, found := "", false
		for _, line := range strings.Split(string(out), "\n") {
			if strings.HasPrefix(line, "# verifwork/gen/") {
				cur = strings.Fields(strings.TrimPrefix(line, "# verifwork/gen/"))[0]
				continue
			}
			if _, ok := diag[cur]; ok && line != "" && len(diag[cur]) < 600 {
				diag[cur] += line + "\n"
				found = true
			}
		}
		if !found {
			return nil, fmt.Errorf("go build of generated code failed without package attribution: %v\n%s", err, out)
		}
	}
	return diag, nil
}

func firstLines(b []byte, n int) string {
	ls := strings.SplitN(string(b), "\n", n+1)
	if len(ls) > n {
		ls = ls[:n]
	}
	return strings.Join(ls, " | ")
}
