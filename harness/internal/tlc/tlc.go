// Package tlc runs the TLC model checker on modules of /verif/spec and
// collects what the specifications print ("@@TAG json" lines), the state
// counts, and invariant/postcondition failures.
package tlc

import (
	"bufio"
	"context"
	"fmt"
	"io"
	"os"
	"os/exec"
	"path/filepath"
	"regexp"
	"strconv"
	"strings"
	"syscall"
	"time"
)

type Result struct {
	Generated int
	Distinct  int
	Depth     int
	// Violated is the name of a violated invariant / property, "" if none.
	Violated string
	// Failed is set when TLC reported an error other than an invariant violation.
	Failed  string
	Elapsed time.Duration
	Tail    []string // last non-@@ output lines
}

type Run struct {
	SpecDir   string            // directory holding the .tla files (copied to Scratch)
	Scratch   string            // scratch dir for this run (created, caller removes)
	Module    string            // module name without .tla
	Cfg       string            // full text of the .cfg
	Files     map[string]string // extra files to place next to the module (name -> source path)
	Workers   int
	Timeout   time.Duration
	Simulate  string // e.g. "num=1000" to run -simulate; "" for exhaustive
	Depth     int
	Seed      int
	ExtraArgs []string
	JavaProps []string // e.g. -Dtlc2.tool.queue.IStateQueue=StateDeque
	OnLine    func(tag string, json string)
}

var statsRe = regexp.MustCompile(`^(\d+) states generated, (\d+) distinct states found`)
var depthRe = regexp.MustCompile(`^The depth of the complete state graph search is (\d+)`)
var invRe = regexp.MustCompile(`^Error: Invariant (\S+) is violated`)
var propRe = regexp.MustCompile(`^Error: (Temporal properties were violated|Action property .* is violated|Deadlock reached|The postcondition .* is violated|Evaluating postcondition .*|Assumption .* is false)`)

func copyFile(src, dst string) error {
	in, err := os.Open(src)
	if err != nil {
		return err
	}
	defer in.Close()
	out, err := os.Create(dst)
	if err != nil {
		return err
	}
	if _, err := io.Copy(out, in); err != nil {
		out.Close()
		return err
	}
	return out.Close()
}

// Exec runs TLC. A non-nil error is an infrastructure error (timeout, JVM
// failure, parse error); a violated invariant is reported in Result.Violated.
func (r *Run) Exec() (*Result, error) {
	if err := os.MkdirAll(r.Scratch, 0o755); err != nil {
		return nil, err
	}
	ents, err := os.ReadDir(r.SpecDir)
	if err != nil {
		return nil, err
	}
	for _, e := range ents {
		if strings.HasSuffix(e.Name(), ".tla") {
			if err := copyFile(filepath.Join(r.SpecDir, e.Name()), filepath.Join(r.Scratch, e.Name())); err != nil {
				return nil, err
			}
		}
	}
	for name, src := range r.Files {
		if err := copyFile(src, filepath.Join(r.Scratch, name)); err != nil {
			return nil, err
		}
	}
	// modules that extend WireUniverse read the harness-drawn schemas from extra.ndjson (possibly none)
	if _, ok := r.Files["extra.ndjson"]; !ok {
		if _, err := os.Stat(filepath.Join(r.Scratch, "extra.ndjson")); err != nil {
			if err := os.WriteFile(filepath.Join(r.Scratch, "extra.ndjson"), nil, 0o644); err != nil {
				return nil, err
			}
		}
	}
	cfgPath := filepath.Join(r.Scratch, r.Module+"_run.cfg")
	if err := os.WriteFile(cfgPath, []byte(r.Cfg), 0o644); err != nil {
		return nil, err
	}
	workers := r.Workers
	if workers <= 0 {
		workers = 1
	}
	timeout := r.Timeout
	if timeout == 0 {
		timeout = 10 * time.Minute
	}
	// bounded heaps: several TLC processes run side by side (12 judge shards, other checks)
	heap := "-Xmx3g"
	if workers > 1 {
		heap = "-Xmx10g"
	}
	args := []string{"-XX:+UseParallelGC", "-Xss256m", heap}
	args = append(args, r.JavaProps...)
	args = append(args, "-cp", "/opt/veriftools/tla/tla2tools.jar:/opt/veriftools/tla/CommunityModules-deps.jar",
		"tlc2.TLC", "-metadir", filepath.Join(r.Scratch, "md"), "-workers", strconv.Itoa(workers),
		"-config", r.Module+"_run.cfg")
	if r.Simulate != "" {
		args = append(args, "-simulate", r.Simulate)
		if r.Depth > 0 {
			args = append(args, "-depth", strconv.Itoa(r.Depth))
		}
		args = append(args, "-seed", strconv.Itoa(r.Seed))
	}
	args = append(args, r.ExtraArgs...)
	args = append(args, r.Module+".tla")
	ctx, cancel := context.WithTimeout(context.Background(), timeout)
	defer cancel()
	cmd := exec.CommandContext(ctx, "java", args...)
	cmd.Dir = r.Scratch
	cmd.SysProcAttr = &syscall.SysProcAttr{Setpgid: true}
	cmd.Cancel = func() error { return syscall.Kill(-cmd.Process.Pid, syscall.SIGKILL) }
	stdout, err := cmd.StdoutPipe()
	if err != nil {
		return nil, err
	}
	cmd.Stderr = cmd.Stdout
	start := time.Now()
	if err := cmd.Start(); err != nil {
		return nil, err
	}
	res := &Result{}
	sc := bufio.NewReaderSize(stdout, 1<<20)
	for {
		line, err := sc.ReadString('\n')
		if len(line) > 0 {
			line = strings.TrimRight(line, "\r\n")
			if strings.HasPrefix(line, `"@@`) {
				s, uerr := strconv.Unquote(line)
				if uerr != nil {
					res.Failed = "cannot unquote TLC output line: " + uerr.Error()
				} else if r.OnLine != nil {
					sp := strings.IndexByte(s, ' ')
					if sp < 0 {
						r.OnLine(s[2:], "")
					} else {
						r.OnLine(s[2:sp], s[sp+1:])
					}
				}
			} else {
				if m := statsRe.FindStringSubmatch(line); m != nil {
					res.Generated, _ = strconv.Atoi(m[1])
					res.Distinct, _ = strconv.Atoi(m[2])
				} else if m := depthRe.FindStringSubmatch(line); m != nil {
					res.Depth, _ = strconv.Atoi(m[1])
				} else if m := invRe.FindStringSubmatch(line); m != nil {
					res.Violated = m[1]
				} else if propRe.MatchString(line) {
					res.Violated = strings.TrimPrefix(line, "Error: ")
				} else if strings.HasPrefix(line, "Error:") && res.Failed == "" && res.Violated == "" {
					res.Failed = line
				}
				res.Tail = append(res.Tail, line)
				if len(res.Tail) > 60 {
					res.Tail = res.Tail[len(res.Tail)-60:]
				}
			}
		}
		if err != nil {
			break
		}
	}
	werr := cmd.Wait()
	res.Elapsed = time.Since(start)
	if ctx.Err() != nil {
		return res, fmt.Errorf("tlc %s: timeout after %v", r.Module, timeout)
	}
	if res.Violated != "" {
		return res, nil
	}
	if res.Failed != "" {
		return res, fmt.Errorf("tlc %s: %s\n%s", r.Module, res.Failed, strings.Join(res.Tail, "\n"))
	}
	if werr != nil {
		return res, fmt.Errorf("tlc %s: %v\n%s", r.Module, werr, strings.Join(res.Tail, "\n"))
	}
	return res, nil
}
