// Package randschema draws well-formed abstract schemas at random (seeded):
// several definitions referring to each other, container nesting up to depth
// 3, every primitive, enums over every base, readonly structs, deprecated
// message fields, unions with inline branches. The specification (TLA+) then
// supplies values, reference bytes and judgements for them.
package randschema

import (
	"fmt"
	"math/rand"

	"verif/harness/internal/abs"
)

var prims = []string{"bool", "byte", "uint8", "uint16", "int16", "uint32", "int32", "uint64", "int64", "float32", "float64", "string", "guid", "date"}
var bases = []string{"byte", "uint8", "uint16", "int16", "uint32", "int32", "uint64", "int64"}

type gen struct {
	r       *rand.Rand
	defs    abs.Schema
	structs []string // names usable inside structs (defined earlier: keeps structs finite)
	any     []string // every record/enum name defined so far
	n       int
}

func (g *gen) name(p string) string { g.n++; return fmt.Sprintf("%s%d", p, g.n) }

func le(n uint64, w int) []int {
	out := make([]int, w)
	for i := range out {
		out[i] = int(n % 256)
		n /= 256
	}
	return out
}

func (g *gen) typ(depth int, pool []string) abs.Type {
	k := g.r.Intn(10)
	switch {
	case depth > 0 && k < 2:
		e := g.typ(depth-1, pool)
		return abs.Type{K: "a", E: &e}
	case depth > 0 && k < 4:
		v := g.typ(depth-1, pool)
		return abs.Type{K: "m", Key: prims[g.r.Intn(len(prims))], V: &v}
	case k < 6 && len(pool) > 0:
		return abs.Type{K: "r", N: pool[g.r.Intn(len(pool))]}
	}
	return abs.Type{K: "p", P: prims[g.r.Intn(len(prims))]}
}

func (g *gen) enum() {
	b := bases[g.r.Intn(len(bases))]
	w := abs.PrimWidth[b]
	d := abs.Def{Name: g.name("E"), Kind: "enum", Base: b}
	used := map[uint64]bool{}
	for i := 0; i < 2+g.r.Intn(2); i++ {
		v := uint64(g.r.Intn(120))
		if i == 1 {
			v = 1<<(8*uint(w)-1) - 1 // the largest positive value of a signed base of this width
		}
		if used[v] {
			continue
		}
		used[v] = true
		d.Members = append(d.Members, abs.Member{Name: fmt.Sprintf("M%d", i), Val: le(v, w)})
	}
	g.defs = append(g.defs, d)
	g.structs = append(g.structs, d.Name)
	g.any = append(g.any, d.Name)
}

func (g *gen) strct(name, inner string, pool []string) abs.Def {
	d := abs.Def{Name: name, Kind: "struct", Ro: g.r.Intn(5) == 0 && inner == "", Inner: inner}
	for i := 0; i < g.r.Intn(6); i++ {
		d.Fields = append(d.Fields, abs.Field{Name: fmt.Sprintf("f%d", i), T: g.typ(3, pool)})
	}
	return d
}

func (g *gen) message(name, inner string, pool []string) abs.Def {
	d := abs.Def{Name: name, Kind: "message", Inner: inner}
	idx := 0
	for i := 0; i < g.r.Intn(6); i++ {
		idx += 1 + g.r.Intn(40)
		if idx > 250 {
			break
		}
		d.Fields = append(d.Fields, abs.Field{Name: fmt.Sprintf("f%d", i), T: g.typ(3, pool), Idx: idx, Dep: g.r.Intn(7) == 0})
	}
	return d
}

// Schema draws one schema whose last definition is the record "Root".
func Schema(seed int64) abs.Schema {
	g := &gen{r: rand.New(rand.NewSource(seed))}
	for i := 0; i < g.r.Intn(3); i++ {
		g.enum()
	}
	ndefs := 1 + g.r.Intn(5)
	for i := 0; i < ndefs; i++ {
		last := i == ndefs-1
		name := g.name("D")
		if last {
			name = "Root"
		}
		switch g.r.Intn(3) {
		case 0:
			d := g.strct(name, "", g.structs)
			g.defs = append(g.defs, d)
			g.structs = append(g.structs, name)
		case 1:
			// a message may refer to anything already defined (recursion through a message terminates)
			g.defs = append(g.defs, g.message(name, "", g.any))
		case 2:
			u := abs.Def{Name: name, Kind: "union"}
			var inner []abs.Def
			idx := 0
			for b := 0; b < 1+g.r.Intn(3); b++ {
				idx += 1 + g.r.Intn(60)
				bn := g.name("B")
				if g.r.Intn(2) == 0 {
					inner = append(inner, g.strct(bn, name, g.structs))
				} else {
					inner = append(inner, g.message(bn, name, g.any))
				}
				u.Branches = append(u.Branches, abs.BranchRef{Idx: idx, N: bn})
			}
			g.defs = append(g.defs, u)
			g.defs = append(g.defs, inner...)
		}
		if !last {
			g.any = append(g.any, name)
		}
	}
	return g.defs
}

// JSON renders the schema in exactly the record shapes the TLA+ modules use (no field is omitted).
func JSON(s abs.Schema) []map[string]interface{} {
	out := []map[string]interface{}{}
	for _, d := range s {
		m := map[string]interface{}{"name": d.Name, "kind": d.Kind}
		if d.Inner != "" {
			m["inner"] = d.Inner
		}
		switch d.Kind {
		case "enum":
			m["base"] = d.Base
			ms := []interface{}{}
			for _, x := range d.Members {
				ms = append(ms, map[string]interface{}{"name": x.Name, "val": x.Val})
			}
			m["members"] = ms
		case "struct":
			m["ro"] = d.Ro
			fs := []interface{}{}
			for _, f := range d.Fields {
				fs = append(fs, map[string]interface{}{"name": f.Name, "t": f.T})
			}
			m["fields"] = fs
		case "message":
			fs := []interface{}{}
			for _, f := range d.Fields {
				fs = append(fs, map[string]interface{}{"idx": f.Idx, "name": f.Name, "t": f.T, "dep": f.Dep})
			}
			m["fields"] = fs
		case "union":
			bs := []interface{}{}
			for _, b := range d.Branches {
				bs = append(bs, map[string]interface{}{"idx": b.Idx, "n": b.N})
			}
			m["branches"] = bs
		}
		out = append(out, m)
	}
	return out
}
