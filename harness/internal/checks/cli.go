package checks

import (
	"bytes"
	"encoding/json"
	"fmt"
	"os"
	"os/exec"
	"path/filepath"
	"regexp"
	"strconv"
	"strings"
	"time"
	"verif/harness/internal/genrun"

	"github.com/200sc/bebop"

	"verif/harness/internal/ast"
	"verif/harness/internal/tlc"
)

type sysEvent struct {
	Ev    string
	Path  string
	From  string
	To    string
	Trunc bool
	Creat bool
	OK    bool
	N     int
	Inj   bool
}

var straceLine = regexp.MustCompile(`^(\d+)\s+(\w+)\((.*)\)\s+=\s+(-?\d+|\?)(.*)$`)
var quoted = regexp.MustCompile(`"((?:[^"\\]|\\.)*)"`)

// parseStrace turns strace output into file-system events on paths under dir.
func parseStrace(txt string, dir string) ([]sysEvent, bool) {
	fds := map[string]string{} // "pid:fd" is overkill: file descriptors are per process; one process here
	var out []sysEvent
	pending := map[string]string{}
	injectedHit := false
	for _, raw := range strings.Split(txt, "\n") {
		line := raw
		if strings.Contains(line, "<unfinished ...>") {
			pid := strings.Fields(line)[0]
			pending[pid] = strings.TrimSuffix(strings.TrimSpace(line), "<unfinished ...>")
			continue
		}
		if i := strings.Index(line, "resumed>"); i >= 0 {
			pid := strings.Fields(line)[0]
			line = pending[pid] + line[i+len("resumed>"):]
			delete(pending, pid)
		}
		m := straceLine.FindStringSubmatch(line)
		if m == nil {
			continue
		}
		call, args, rets, tail := m[2], m[3], m[4], m[5]
		ret, _ := strconv.Atoi(rets)
		inj := strings.Contains(tail, "INJECTED")
		under := func(p string) bool {
			if !filepath.IsAbs(p) {
				return false
			}
			return strings.HasPrefix(filepath.Clean(p), dir+"/")
		}
		switch call {
		case "openat":
			q := quoted.FindStringSubmatch(args)
			if q == nil {
				continue
			}
			p := q[1]
			writeMode := strings.Contains(args, "O_WRONLY") || strings.Contains(args, "O_RDWR") || strings.Contains(args, "O_CREAT") || strings.Contains(args, "O_TRUNC")
			if !under(p) || !writeMode {
				continue
			}
			if ret >= 0 {
				fds[rets] = p
			}
			if inj {
				injectedHit = true
			}
			out = append(out, sysEvent{Ev: "open", Path: p, Trunc: strings.Contains(args, "O_TRUNC"), Creat: strings.Contains(args, "O_CREAT"), OK: ret >= 0, Inj: inj})
		case "write", "pwrite64":
			fd := strings.TrimSpace(strings.SplitN(args, ",", 2)[0])
			p, ok := fds[fd]
			if !ok {
				continue
			}
			if inj {
				injectedHit = true
			}
			n := ret
			if n < 0 {
				n = 0
			}
			out = append(out, sysEvent{Ev: "write", Path: p, N: n, OK: ret >= 0, Inj: inj})
		case "close":
			delete(fds, strings.TrimSpace(args))
		case "rename", "renameat", "renameat2":
			qs := quoted.FindAllStringSubmatch(args, -1)
			if len(qs) < 2 {
				continue
			}
			from, to := qs[0][1], qs[1][1]
			if !under(from) && !under(to) {
				continue
			}
			if inj {
				injectedHit = true
			}
			out = append(out, sysEvent{Ev: "rename", From: from, To: to, OK: ret == 0, Inj: inj})
		case "unlink", "unlinkat":
			q := quoted.FindStringSubmatch(args)
			if q == nil || !under(q[1]) {
				continue
			}
			out = append(out, sysEvent{Ev: "unlink", Path: q[1], OK: ret == 0})
		case "ftruncate":
			fd := strings.TrimSpace(strings.SplitN(args, ",", 2)[0])
			if p, ok := fds[fd]; ok {
				out = append(out, sysEvent{Ev: "open", Path: p, Trunc: true, OK: ret == 0})
			}
		}
	}
	return out, injectedHit
}

type cliRun struct {
	exit     int
	stdout   string
	stderr   string
	events   []sysEvent
	injected bool
	crash    string
}

func runTraced(bin string, args []string, cwd, dir, inject string) (*cliRun, error) {
	tr := filepath.Join(cwd, "strace.out")
	_ = os.Remove(tr)
	sargs := []string{"-f", "-qq", "-e", "trace=openat,write,pwrite64,close,rename,renameat,renameat2,unlink,unlinkat,ftruncate"}
	if inject != "" {
		sargs = append(sargs, "-e", "inject="+inject)
	}
	sargs = append(sargs, "-o", tr, bin)
	sargs = append(sargs, args...)
	cmd := exec.Command("strace", sargs...)
	cmd.Dir = cwd
	var so, se bytes.Buffer
	cmd.Stdout, cmd.Stderr = &so, &se
	done := make(chan error, 1)
	if err := cmd.Start(); err != nil {
		return nil, err
	}
	go func() { done <- cmd.Wait() }()
	r := &cliRun{}
	select {
	case err := <-done:
		if err != nil {
			if ee, ok := err.(*exec.ExitError); ok {
				r.exit = ee.ExitCode()
			} else {
				return nil, err
			}
		}
	case <-time.After(60 * time.Second):
		_ = cmd.Process.Kill()
		r.crash = "timeout"
		r.exit = -1
	}
	r.stdout, r.stderr = so.String(), se.String()
	if strings.Contains(r.stderr, "panic:") || strings.Contains(r.stderr, "fatal error:") || r.exit == 2 && strings.Contains(r.stderr, "goroutine ") {
		r.crash = "panic"
	}
	b, err := os.ReadFile(tr)
	if err != nil {
		return nil, fmt.Errorf("strace produced no output: %v / %s", err, r.stderr)
	}
	r.events, r.injected = parseStrace(string(b), dir)
	return r, nil
}

func stripDocs(v interface{}) {
	switch x := v.(type) {
	case map[string]interface{}:
		if _, ok := x["doc"]; ok {
			x["doc"] = ""
		}
		if _, ok := x["tags"]; ok {
			x["tags"] = []interface{}{}
		}
		for _, c := range x {
			stripDocs(c)
		}
	case []interface{}:
		for _, c := range x {
			stripDocs(c)
		}
	}
}

func sameSchema(a, b []byte) bool {
	fa, _, ea := bebop.ReadFile(bytes.NewReader(a))
	fb, _, eb := bebop.ReadFile(bytes.NewReader(b))
	if ea != nil || eb != nil {
		return false
	}
	ja, _ := json.Marshal(ast.FileOf(fa))
	jb, _ := json.Marshal(ast.FileOf(fb))
	var va, vb interface{}
	_ = json.Unmarshal(ja, &va)
	_ = json.Unmarshal(jb, &vb)
	stripDocs(va)
	stripDocs(vb)
	ja, _ = json.Marshal(va)
	jb, _ = json.Marshal(vb)
	return bytes.Equal(ja, jb)
}

const validSchema = "// a valid schema\nenum Color {\n\tRed = 1;\n\tGreen = 2;\n}\nstruct Point {\n\tint32 x;\n\tint32 y;\n}\nmessage Msg {\n\t1 -> Point p;\n\t2 -> string[] names;\n\t3 -> map[string, Color] m;\n}\nunion U {\n\t1 -> struct UA {\n\t\tPoint p;\n\t}\n\t2 -> message UB {\n\t\t1 -> Color c;\n\t}\n}\n"
const uglySchema = "struct   Point   {  int32 x ;\n\n\n int32    y;  }\nmessage Msg { 1 -> Point p;\n 2 -> string[] names; }\nenum Color { Red = 1;\n Green = 2; }\n"
const syntaxBad = "struct Point {\n\tint32 x\n\tint32 y;\n}\n"
const validationBad = "struct Point {\n\tint32 x;\n}\nstruct Point {\n\tint32 y;\n}\n"
const missingImport = "import \"./nope.bop\"\nstruct Point {\n\tint32 x;\n}\n"

func runC19(c *Ctx) (int, error) {
	specDir := filepath.Join(Root, "spec")
	// the design: the atomic tool keeps TargetIntact under every fault and crash point
	mc := &tlc.Run{SpecDir: specDir, Scratch: filepath.Join(c.Work, "climc"), Module: "Cli", Workers: 4, Timeout: 10 * time.Minute,
		Cfg: "CONSTANTS\n  Tool = \"atomic\"\n  NWrites = 4\nSPECIFICATION Spec\nINVARIANTS TargetIntact ExitIffError FailureKeepsOld SuccessIsComplete\nPROPERTIES Terminates\nCHECK_DEADLOCK FALSE\n"}
	mr, err := mc.Exec()
	if err != nil {
		return 2, infra("Cli.tla: %v", err)
	}
	if mr.Violated != "" {
		return 2, infra("Cli.tla (atomic tool) violates %s: spec bug", mr.Violated)
	}
	// build the binaries from /repo's working tree
	bindir := filepath.Join(c.Work, "clibin")
	_ = os.MkdirAll(bindir, 0o755)
	for _, name := range []string{"bebopc-go", "bebopfmt"} {
		cmd := exec.Command("go", "build", "-o", filepath.Join(bindir, name), "./main/"+name)
		cmd.Dir = genrun.RepoDir()
		cmd.Env = append(os.Environ(), "GOFLAGS=-mod=mod", "GOPROXY=off", "GOSUMDB=off", "GOTOOLCHAIN=local")
		if out, err := cmd.CombinedOutput(); err != nil {
			return 2, infra("building %s: %v\n%s", name, err, out)
		}
	}
	var events []map[string]interface{}
	runs := 0
	const oldContent = "PREVIOUS CONTENTS OF THE TARGET\n"
	emitRun := func(tool, scenario string, r *cliRun, target string, old []byte, expectFail bool, isFmt bool) {
		runs++
		names := map[string]string{target: "T"}
		name := func(p string) string {
			if n, ok := names[p]; ok {
				return n
			}
			n := fmt.Sprintf("tmp%d", len(names))
			if len(names) > 3 {
				n = "tmp3"
			}
			names[p] = n
			return n
		}
		events = append(events, map[string]interface{}{"ev": "begin", "tool": tool, "scenario": scenario})
		for _, e := range r.events {
			switch e.Ev {
			case "open":
				events = append(events, map[string]interface{}{"ev": "open", "path": name(e.Path), "trunc": e.Trunc, "creat": e.Creat, "ok": e.OK})
			case "write":
				events = append(events, map[string]interface{}{"ev": "write", "path": name(e.Path), "n": e.N, "ok": e.OK})
			case "rename":
				events = append(events, map[string]interface{}{"ev": "rename", "from": name(e.From), "to": name(e.To), "ok": e.OK})
			case "unlink":
				events = append(events, map[string]interface{}{"ev": "unlink", "path": name(e.Path), "ok": e.OK})
			}
		}
		now, rerr := os.ReadFile(target)
		same := rerr == nil && bytes.Equal(now, old)
		reparse := true
		if isFmt && r.exit == 0 {
			reparse = rerr == nil && sameSchema(old, now)
		}
		msg := r.stderr
		if len(msg) > 300 {
			msg = msg[:300]
		}
		events = append(events, map[string]interface{}{"ev": "end", "tool": tool, "scenario": scenario, "exit": r.exit, "printed": strings.TrimSpace(r.stdout+r.stderr) != "",
			"target_same": same, "reparse_same": reparse, "all_same": true, "expectfail": expectFail, "crash": r.crash != "", "msg": r.crash + " " + msg})
	}
	// ---- bebopc-go
	inputs := []struct {
		name, text string
		bad        bool
	}{{"valid", validSchema, false}, {"syntax-error", syntaxBad, true}, {"validation-error", validationBad, true}, {"missing-import", missingImport, true}, {"no-such-input", "", true},
		// accepted schemas and flags for which the generated text is not valid Go (identifier clashes, F-C12-3; a package name
		// that is no identifier): whatever the tool makes of them, a run that reports failure must leave the output alone
		{"keyword-names", "struct S {\n\tint32 type;\n\tstring func;\n}\nmessage range {\n\t1 -> S s;\n}\n", false}}
	flagSets := [][]string{{}, {"-combined-imports", "-generate-unsafe"}, {}, {"-private-definitions"}, {"-package", "my-pkg"}, {"-private-definitions", "-generate-tags", "-force-pointer-receivers", "-share-string-memory", "-generate-unsafe"}}
	for _, in := range inputs {
		for fi, flags := range flagSets {
			if fi >= 3 && in.name != "keyword-names" && in.name != "valid" {
				continue
			}
			// the third pass: -o names a symbolic link to the generated file (whatever the tool does with the link, what
			// is read through the path must be the old or the complete new contents)
			viaLink := fi == 2
			if viaLink && in.name != "valid" && in.name != "syntax-error" {
				continue
			}
			dir := filepath.Join(c.Work, "cli", fmt.Sprintf("c%d", runs))
			_ = os.MkdirAll(dir, 0o755)
			inp := filepath.Join(dir, "in.bop")
			if in.name != "no-such-input" {
				_ = os.WriteFile(inp, []byte(in.text), 0o644)
			}
			target := filepath.Join(dir, "out.go")
			reset := func() { _ = os.WriteFile(target, []byte(oldContent), 0o644) }
			if viaLink {
				reset = func() {
					_ = os.Remove(target)
					_ = os.WriteFile(filepath.Join(dir, "real_out.go"), []byte(oldContent), 0o644)
					_ = os.Symlink("real_out.go", target)
				}
			}
			args := append(append([]string{}, flags...), "-i", inp, "-o", target)
			reset()
			r, err := runTraced(filepath.Join(bindir, "bebopc-go"), args, dir, dir, "")
			if err != nil {
				return 2, infra("%v", err)
			}
			linkNote := ""
			if viaLink {
				linkNote = " (-o is a symbolic link)"
			}
			emitRun("bebopc-go", in.name+" input, no fault "+strings.Join(flags, " ")+linkNote, r, target, []byte(oldContent), in.bad, false)
			if in.bad || len(flags) > 0 {
				continue
			}
			// faults: every write to a file of the directory, the creating open, the rename
			nw, nopen, nren := 0, 0, 0
			for _, e := range r.events {
				switch e.Ev {
				case "write":
					nw++
				case "open":
					nopen++
				case "rename":
					nren++
				}
			}
			step := 1
			if nw > 40 && c.Tier != "thorough" {
				step = nw / 40
			}
			for k := 1; k <= nw; k += step {
				reset()
				fr, err := runTraced(filepath.Join(bindir, "bebopc-go"), args, dir, dir, fmt.Sprintf("write:error=ENOSPC:when=%d", k))
				if err != nil {
					return 2, infra("%v", err)
				}
				emitRun("bebopc-go", fmt.Sprintf("valid input, write %d of %d fails with ENOSPC%s", k, nw, linkNote), fr, target, []byte(oldContent), fr.injected, false)
			}
			// which openat (counting all openat calls of the process) creates the output: find by replaying without -P is not possible; inject on every openat index that touches the directory
			if nopen > 0 {
				for idx := 1; idx <= 12; idx++ {
					reset()
					fr, err := runTraced(filepath.Join(bindir, "bebopc-go"), args, dir, dir, fmt.Sprintf("openat:error=EACCES:when=%d", idx))
					if err != nil {
						return 2, infra("%v", err)
					}
					if fr.injected {
						emitRun("bebopc-go", "valid input, creating the output fails with EACCES", fr, target, []byte(oldContent), true, false)
					}
				}
			}
			if nren > 0 {
				reset()
				fr, err := runTraced(filepath.Join(bindir, "bebopc-go"), args, dir, dir, "rename,renameat,renameat2:error=EXDEV:when=1")
				if err != nil {
					return 2, infra("%v", err)
				}
				emitRun("bebopc-go", "valid input, rename fails with EXDEV", fr, target, []byte(oldContent), fr.injected, false)
			}
		}
	}
	// ---- bebopfmt -w
	fmtInputs := []struct {
		name, text string
		bad        bool
	}{{"valid-unformatted", uglySchema, false}, {"valid-formatted", validSchema, false}, {"syntax-error", syntaxBad, true},
		{"valid-no-final-newline", strings.TrimRight(uglySchema, "\n"), false}, {"valid-formatted-no-final-newline", strings.TrimRight(validSchema, "\n"), false},
		{"valid-ends-in-const", validSchema + "const int32 last = 5;", false}}
	for _, in := range fmtInputs {
		dir := filepath.Join(c.Work, "cli", fmt.Sprintf("f%d", runs))
		_ = os.MkdirAll(dir, 0o755)
		target := filepath.Join(dir, "schema.bop")
		reset := func() { _ = os.WriteFile(target, []byte(in.text), 0o644) }
		args := []string{"-w", target}
		reset()
		r, err := runTraced(filepath.Join(bindir, "bebopfmt"), args, dir, dir, "")
		if err != nil {
			return 2, infra("%v", err)
		}
		emitRun("bebopfmt", in.name+" file, no fault", r, target, []byte(in.text), in.bad, true)
		if in.bad {
			continue
		}
		nw, nren := 0, 0
		for _, e := range r.events {
			if e.Ev == "write" {
				nw++
			}
			if e.Ev == "rename" {
				nren++
			}
		}
		for k := 1; k <= nw; k++ {
			reset()
			fr, err := runTraced(filepath.Join(bindir, "bebopfmt"), args, dir, dir, fmt.Sprintf("write:error=ENOSPC:when=%d", k))
			if err != nil {
				return 2, infra("%v", err)
			}
			emitRun("bebopfmt", fmt.Sprintf("%s file, write %d of %d fails with ENOSPC", in.name, k, nw), fr, target, []byte(in.text), fr.injected, true)
		}
		for idx := 1; idx <= 12; idx++ {
			reset()
			fr, err := runTraced(filepath.Join(bindir, "bebopfmt"), args, dir, dir, fmt.Sprintf("openat:error=EACCES:when=%d", idx))
			if err != nil {
				return 2, infra("%v", err)
			}
			// only opens for writing count as faults of the rewrite; a failing read-open is an unreadable input
			hit := false
			for _, e := range fr.events {
				if e.Ev == "open" && e.Inj {
					hit = true
				}
			}
			if hit {
				emitRun("bebopfmt", in.name+" file, opening the file for rewriting fails with EACCES", fr, target, []byte(in.text), true, true)
			}
		}
		if nren > 0 {
			reset()
			fr, err := runTraced(filepath.Join(bindir, "bebopfmt"), args, dir, dir, "rename,renameat,renameat2:error=EXDEV:when=1")
			if err != nil {
				return 2, infra("%v", err)
			}
			emitRun("bebopfmt", in.name+" file, rename fails with EXDEV", fr, target, []byte(in.text), fr.injected, true)
		}
	}
	// a directory with a valid and an invalid file: the invalid one must stay untouched, the run must fail
	{
		dir := filepath.Join(c.Work, "cli", "dirmode")
		sub := filepath.Join(dir, "schemas")
		_ = os.MkdirAll(sub, 0o755)
		_ = os.WriteFile(filepath.Join(sub, "a_valid.bop"), []byte(uglySchema), 0o644)
		target := filepath.Join(sub, "b_invalid.bop")
		_ = os.WriteFile(target, []byte(syntaxBad), 0o644)
		r, err := runTraced(filepath.Join(bindir, "bebopfmt"), []string{"-w", sub}, dir, sub, "")
		if err != nil {
			return 2, infra("%v", err)
		}
		emitRun("bebopfmt", "directory with a valid and an unparsable file", r, target, []byte(syntaxBad), true, true)
		now, _ := os.ReadFile(filepath.Join(sub, "a_valid.bop"))
		if !sameSchema([]byte(uglySchema), now) {
			events[len(events)-1]["reparse_same"] = false
			events[len(events)-1]["exit"] = 0
		}
	}
	// a directory of TLC-enumerated schemas (every type expression of the shape universe in both array spellings, and a
	// sample of the definition sequences), without the constructs the pinned formatter is known to damage: one run of
	// bebopfmt -w must succeed and every file must still hold its schema
	{
		pcases, _, perr := genParseCases(c, "Gen_Parse", "Wellformed Export", "")
		if perr != nil {
			return 2, perr
		}
		dir := filepath.Join(c.Work, "cli", "corpus")
		sub := filepath.Join(dir, "schemas")
		_ = os.MkdirAll(sub, 0o755)
		texts := map[string]string{}
		openFmt := map[string]bool{}
		for _, d := range c.OpenDevs("C16", "C17") {
			openFmt[d] = true
		}
		for ci, pc := range pcases {
			if pc.Part != "types" && !(pc.Part == "seq" && (ci+c.Seed)%7 == 0) && !(pc.Part == "items" && (ci+c.Seed)%5 == 0) {
				continue
			}
			skip := false
			for i, t := range pc.Tokens {
				if (t == ":" && openFmt["fmt_unsupported:typed_enum"]) || (t == "flags" && openFmt["fmt_unsupported:flags"]) || (t == "import" && openFmt["fmt_unsupported:import"]) {
					skip = true
				}
				if openFmt["fmt_unsupported:multidim_array"] && i+3 < len(pc.Tokens) && t == "[" && pc.Tokens[i+1] == "]" && pc.Tokens[i+2] == "[" && pc.Tokens[i+3] == "]" {
					skip = true
				}
			}
			if skip {
				continue
			}
			p := filepath.Join(sub, fmt.Sprintf("%s%d.bop", pc.Part, pc.Ci))
			lay := ast.Layouts[(ci+c.Seed)%len(ast.Layouts)]
			if lay.Unspecified {
				lay = ast.Layouts[0] // (only layouts whose texts must be accepted)
			}
			texts[p] = ast.Render(pc.Tokens, lay)
			_ = os.WriteFile(p, []byte(texts[p]), 0o644)
		}
		var anyPath string
		for p := range texts {
			if anyPath == "" || p < anyPath {
				anyPath = p
			}
		}
		if anyPath != "" {
			before, _ := os.ReadFile(anyPath)
			r, err := runTraced(filepath.Join(bindir, "bebopfmt"), []string{"-w", sub}, dir, sub, "")
			if err != nil {
				return 2, infra("%v", err)
			}
			emitRun("bebopfmt", fmt.Sprintf("a directory of %d enumerated schemas", len(texts)), r, anyPath, before, false, true)
			for p, text := range texts {
				now, _ := os.ReadFile(p)
				if !sameSchema([]byte(text), now) {
					events[len(events)-1]["all_same"] = false
					events[len(events)-1]["msg"] = "e.g. " + filepath.Base(p) + ": " + text
					break
				}
			}
		}
	}
	// several path arguments, and the same command again (files already formatted by the first run): a failure on any
	// argument must show in the exit status, files that cannot be processed stay untouched, and EVERY file of the
	// directory still holds the schema it held before
	other := "// another schema\nstruct Account {\n\tguid id;\n\tstring owner;\n}\nmessage Transfer {\n\t1 -> Account from;\n\t2 -> Account to;\n\t3 -> int64 amount;\n}\n"
	otherUgly := "struct Account { guid id;\n string   owner; }\nmessage Transfer { 1 -> Account from;\n\n 2 -> Account to;\n 3 -> int64 amount; }\n"
	for ai, order := range [][]string{{"schemas", "good.bop"}, {"good.bop", "bad.bop"}, {"bad.bop", "good.bop"}, {"good.bop", "schemas"}, {"good.bop", "good2.bop"},
		{"good2.bop", "good.bop"}, {"good2.bop", "other.bop", "good.bop"}, {"otherugly.bop", "good2.bop", "other.bop"}, {"other.bop", "bad.bop", "good.bop"}} {
		dir := filepath.Join(c.Work, "cli", fmt.Sprintf("multi%d", ai))
		sub := filepath.Join(dir, "schemas")
		_ = os.MkdirAll(sub, 0o755)
		files := map[string]string{filepath.Join(sub, "a_valid.bop"): uglySchema, filepath.Join(sub, "b_invalid.bop"): syntaxBad, filepath.Join(dir, "good.bop"): uglySchema,
			filepath.Join(dir, "good2.bop"): validSchema, filepath.Join(dir, "bad.bop"): syntaxBad, filepath.Join(dir, "other.bop"): other, filepath.Join(dir, "otherugly.bop"): otherUgly}
		for p, text := range files {
			_ = os.WriteFile(p, []byte(text), 0o644)
		}
		args := []string{"-w"}
		bad := false
		target := filepath.Join(dir, order[len(order)-1])
		for _, a := range order {
			args = append(args, filepath.Join(dir, a))
			if a == "schemas" {
				bad = true
				target = filepath.Join(sub, "b_invalid.bop")
			}
			if a == "bad.bop" {
				bad = true
				target = filepath.Join(dir, "bad.bop")
			}
		}
		for round := 1; round <= 2; round++ {
			before, _ := os.ReadFile(target)
			r, err := runTraced(filepath.Join(bindir, "bebopfmt"), args, dir, dir, "")
			if err != nil {
				return 2, infra("%v", err)
			}
			emitRun("bebopfmt", fmt.Sprintf("several path arguments: %s (run %d)", strings.Join(order, " "), round), r, target, before, bad, !bad)
			// every file: an unparsable one is byte-identical, every other one still holds its schema
			for p, text := range files {
				now, _ := os.ReadFile(p)
				if text == syntaxBad {
					if string(now) != text {
						events[len(events)-1]["all_same"] = false
					}
				} else if !sameSchema([]byte(text), now) {
					events[len(events)-1]["all_same"] = false
				}
			}
		}
	}
	if runs < 10 {
		return 2, infra("only %d CLI runs were traced", runs)
	}
	devs := c.OpenDevs("C19")
	dummy := []*parseCase{{Part: "x", Ci: 1}}
	vs, total, st, tr, err := judgeOne(c, "Trace_Cli", devs, dummy, events)
	if err != nil {
		return 2, infra("%v", err)
	}
	reportParseVerdicts(c, vs, dummy, events, "cli")
	var ends []interface{}
	for _, e := range events {
		if e["ev"] == "end" && len(ends) < 3 {
			ends = append(ends, e)
		}
	}
	cov := Coverage{"states": mr.Distinct + st, "transitions": mr.Generated + tr, "traces_validated_against_impl": total["ok"] + total["known"],
		"events_total": len(events), "evaluations": runs, "distinct_nontrivial": runs, "samples": ends,
		"rule": "runs of the real binaries (rebuilt from /repo) under strace: bebopc-go x {valid, syntax error, validation error, missing import, missing input} x {default, -combined-imports -generate-unsafe}; for the valid input EVERY write to the output directory fails with ENOSPC (every 1/40th beyond 40 in quick), the creating open fails with EACCES, the rename fails with EXDEV; bebopfmt -w x {unformatted, formatted, unparsable} with the same faults, and a directory of mixed files; every recorded system call is replayed through Cli.tla's file-system actions and TargetIntact is evaluated at every system-call boundary (crash point)",
		"runs": runs, "open_deviations": devs, "cli_model_states": mr.Distinct, "exhaustive": false}
	return c.Finish("model_checking", cov, []string{"strace reports the system calls faithfully; a crash is modelled as stopping between two system calls (no torn write inside one call)", "the process runs as root, so permission faults are injected at the system-call level (EACCES on openat) instead of through file modes"}), nil
}

// judgeOne runs a trace module over one unsharded event sequence (runs must not be split).
func judgeOne(c *Ctx, module string, devs []string, cases []*parseCase, events []map[string]interface{}) ([]pverdict, map[string]int, int, int, error) {
	saved := forceSingleShard
	forceSingleShard = true
	defer func() { forceSingleShard = saved }()
	return judgeParseModule(c, module, devs, cases, events)
}

var forceSingleShard = false

func init() { Registry["C19"] = runC19 }
