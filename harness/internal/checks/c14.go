package checks

import (
	"bytes"
	"encoding/json"
	"fmt"
	"os"
	"os/exec"
	"path/filepath"
	"strings"
	"time"

	"verif/harness/internal/tlc"
)

// a schema with several entries in every map-typed table of the generator
const c14Main = `import "./dep_b.bop"
import "./dep_c.bop"
const string go_package = "example.com/x/maina";
const int32 k1 = 1;
const int32 k2 = 2;
const string k3 = "three";
const float64 k4 = inf;
enum E1 { A = 1; B = 2; }
enum E2 : uint8 { A = 1; B = 2; }
[flags]
enum E3 { A = 1; B = 2; C = A | B; }
enum E4 : int64 { A = -1; B = 2; }
struct S1 {
	//[tag(json:"a")]
	//[tag(json:"a2,omitempty")]
	//[tag(db:"col_a")]
	//[tag(yaml:"a")]
	int32 a;
	//[tag(json:"b")]
	//[tag(flag)]
	//[tag(flag)]
	string b;
	TB tb;
}
struct S2 { S1 s; E1 e; date d; guid g; }
struct S5 { uint8[] raw; uint8[][] rows; map[string, uint8[]] blobs; byte[] b; array[uint8] pre; }
message M6 { 1 -> uint8[] raw; 2 -> map[uint8, uint8[]] m; }
readonly struct S3 { map[string, S2] m; TC[] cs; }
[opcode(0x11)]
struct S4 { E2 e; }
message M1 {
	//[tag(json:"a")]
	//[tag(xml:"a")]
	//[tag(json:"dup")]
	1 -> int32 a;
	2 -> string b;
	7 -> S1 s;
	9 -> map[guid, S2[]] z;
}
message M2 { 1 -> M1 m; 2 -> E3 e; 3 -> TB tb; 4 -> U1 u; }
[opcode("ABCD")]
message M3 { 5 -> float32 f; 6 -> float64 g; 8 -> bool b; }
message M4 { 1 -> M4 self; }
union U1 { 1 -> struct U1A { int32 x; } 2 -> message U1B { 1 -> S2 s; }
 3 -> struct U1C { string[] names; }
 4 -> message U1D { 1 -> E4 e; }
}
union U2 { 1 -> struct U2A { byte b; }
 2 -> struct U2B { uint64 q; }
 3 -> message U2C { 1 -> int16 h; }
}
/* documented and deprecated things: anything Generate derives from them must be derived into its own copy */
[opcode(0x12)]
message M5 {
	// first
	[deprecated("use b")]
	1 -> string a;
	/* second */
	2 -> string b;
	[deprecated("gone")]
	3 -> S1[] c;
}
// union doc
union U3 {
	// branch doc one
	[deprecated("old branch")]
	1 -> struct U3A { string s; }
	2 -> message U3B {
		[deprecated("old field")]
		1 -> string t;
	}
	[deprecated("older branch")]
	3 -> message U3C { 1 -> guid g; }
}
// enum doc
enum E5 {
	// option doc
	[deprecated("no")]
	A = 1;
	B = 2;
}
`
const c14DepB = `const string go_package = "example.com/x/depb";
struct TB { int64 v; string w; }
message MB { 1 -> TB t; }
enum EB { X = 1; Y = 2; }
`
const c14DepC = `const string go_package = "example.com/x/depc";
struct TC { uint16 v; }
union UC { 1 -> struct UCA { TC t; }
}
`

// a schema that uses neither date nor guid nor maps: what a leak of "used types" from other schemas would change
const c14Plain = `const string go_package = "example.com/x/plain";
enum PE { A = 1; B = 2; }
struct P1 { int32 a; string b; PE e; float64 f; }
message P2 { 1 -> P1 p; 2 -> string[] names; 3 -> int64 n; }
union P3 { 1 -> struct P3A { bool x; } 2 -> message P3B { 1 -> uint16 y; } }
`

// schemas generated earlier in the same process: every primitive as map key and value, as array element, as field
func c14Others() []string {
	prims := []string{"bool", "byte", "uint8", "uint16", "int16", "uint32", "int32", "uint64", "int64", "float32", "float64", "string", "guid", "date"}
	keys := []string{"bool", "byte", "uint8", "uint16", "int16", "uint32", "int32", "uint64", "int64", "string", "guid", "date"}
	var out []string
	var b strings.Builder
	b.WriteString("struct Journal { map[date, string] entries; map[date, int32] counts; map[guid, bool] flags; }\n")
	out = append(out, b.String())
	b.Reset()
	for ki, k := range keys {
		fmt.Fprintf(&b, "struct K%d {\n", ki)
		for vi, v := range prims {
			fmt.Fprintf(&b, "\tmap[%s, %s] m%d;\n", k, v, vi)
		}
		b.WriteString("}\n")
	}
	out = append(out, b.String())
	b.Reset()
	b.WriteString("struct Arr {\n")
	for vi, v := range prims {
		fmt.Fprintf(&b, "\t%s[] a%d;\n\t%s[][] aa%d;\n\tmap[string, %s[]] ma%d;\n", v, vi, v, vi, v, vi)
	}
	b.WriteString("}\nmessage ArrM {\n")
	for vi, v := range prims {
		fmt.Fprintf(&b, "\t%d -> %s[] a%d;\n", vi+1, v, vi)
	}
	b.WriteString("}\n")
	out = append(out, b.String())
	return out
}

func c14NoImports() string {
	s := strings.Replace(c14Main, "import \"./dep_b.bop\"\nimport \"./dep_c.bop\"\n", "", 1)
	return s + "struct TB { int64 v; string w; }\nstruct TC { uint16 v; }\n"
}

func runC14(c *Ctx) (int, error) {
	specDir := filepath.Join(Root, "spec")
	// the design: every interleaving of 3 goroutines x 2 appends with spare capacity, copy-on-append is race free
	states, trans := 0, 0
	for _, spare := range []int{0, 1, 2} {
		mc := &tlc.Run{SpecDir: specDir, Scratch: filepath.Join(c.Work, fmt.Sprintf("gcmc%d", spare)), Module: "GenConcurrency", Workers: 4, Timeout: 10 * time.Minute,
			Cfg: fmt.Sprintf("CONSTANTS\n  G = 3\n  K = 2\n  Len0 = 2\n  Spare = %d\n  Mode = \"clip\"\nSPECIFICATION Spec\nINVARIANTS NoRace CallerUnchanged\nPROPERTIES Terminates\nCHECK_DEADLOCK FALSE\n", spare)}
		mr, err := mc.Exec()
		if err != nil {
			return 2, infra("GenConcurrency: %v", err)
		}
		if mr.Violated != "" {
			return 2, infra("GenConcurrency.tla (clip) violates %s: spec bug", mr.Violated)
		}
		states += mr.Distinct
		trans += mr.Generated
	}
	// build the race-enabled driver against /repo's working tree
	racer := filepath.Join(c.Work, "racer")
	bargs := []string{"build", "-race", "-tags", "verif"}
	if mf := os.Getenv("VERIF_MODFILE"); mf != "" {
		bargs = append(bargs, "-modfile="+mf)
	}
	cmd := exec.Command("go", append(bargs, "-o", racer, "./cmd/racer")...)
	cmd.Dir = filepath.Join(Root, "harness")
	cmd.Env = append(os.Environ(), "GOFLAGS=-mod=mod", "GOPROXY=off", "GOSUMDB=off", "GOTOOLCHAIN=local", "CGO_ENABLED=1")
	if out, err := cmd.CombinedOutput(); err != nil {
		return 2, infra("building the -race driver: %v\n%s", err, out)
	}
	dir := filepath.Join(c.Work, "c14")
	_ = os.MkdirAll(dir, 0o755)
	_ = os.WriteFile(filepath.Join(dir, "main.bop"), []byte(c14Main), 0o644)
	_ = os.WriteFile(filepath.Join(dir, "dep_b.bop"), []byte(c14DepB), 0o644)
	_ = os.WriteFile(filepath.Join(dir, "dep_c.bop"), []byte(c14DepC), 0o644)
	// combined mode inlines the imported files: there they must not declare go_package a second time
	cdir := filepath.Join(dir, "comb")
	_ = os.MkdirAll(cdir, 0o755)
	stripPkg := func(t string) string {
		var keep []string
		for _, ln := range strings.Split(t, "\n") {
			if !strings.HasPrefix(ln, "const string go_package") {
				keep = append(keep, ln)
			}
		}
		return strings.Join(keep, "\n")
	}
	_ = os.WriteFile(filepath.Join(cdir, "main.bop"), []byte(c14Main), 0o644)
	_ = os.WriteFile(filepath.Join(cdir, "dep_b.bop"), []byte(stripPkg(c14DepB)), 0o644)
	_ = os.WriteFile(filepath.Join(cdir, "dep_c.bop"), []byte(stripPkg(c14DepC)), 0o644)
	_ = os.WriteFile(filepath.Join(dir, "flat.bop"), []byte(c14NoImports()), 0o644)
	_ = os.WriteFile(filepath.Join(dir, "plain.bop"), []byte(c14Plain), 0o644)
	var otherFiles []string
	for i, text := range c14Others() {
		p := filepath.Join(dir, fmt.Sprintf("other%d.bop", i))
		_ = os.WriteFile(p, []byte(text), 0o644)
		otherFiles = append(otherFiles, p)
	}
	type scen struct {
		Root        string     `json:"root"`
		API         string     `json:"api"`
		Opts        []string   `json:"opts"`
		Mode        string     `json:"mode"`
		Spare       int        `json:"spare"`
		Goroutines  int        `json:"goroutines"`
		Repeat      int        `json:"repeat"`
		Pre         [][]string `json:"pre"`
		PreFiles    []string   `json:"prefiles"`
		MutatePath  string     `json:"mutatepath"`
		MutateText  string     `json:"mutatetext"`
		PreGenerate bool       `json:"pregenerate"`
		imports     bool
	}
	var scens []scen
	optSets := [][]string{{}, {"PrivateDefinitions", "GenerateFieldTags"}, {"AlwaysUsePointerReceivers", "GenerateUnsafeMethods", "SharedMemoryStrings"}}
	for _, spare := range []int{0, 1, 3} {
		for _, gor := range []int{2, 8} {
			for oi, opts := range optSets {
				if c.Tier != "thorough" && oi > 0 && (spare+gor+oi+c.Seed)%2 == 0 {
					continue
				}
				scens = append(scens, scen{filepath.Join(dir, "flat.bop"), "Generate", opts, "separate", spare, gor, 6, nil, nil, "", "", false, false})
				if spare == 0 {
					scens = append(scens, scen{filepath.Join(dir, "plain.bop"), "Generate", opts, "separate", spare, gor, 6, nil, nil, "", "", false, false})
				}
				scens = append(scens, scen{filepath.Join(dir, "main.bop"), "Generate", opts, "separate", spare, gor, 6, nil, nil, "", "", false, true})
				scens = append(scens, scen{filepath.Join(cdir, "main.bop"), "Generate", opts, "combined", spare, gor, 6, nil, nil, "", "", false, true})
			}
			scens = append(scens, scen{filepath.Join(dir, "main.bop"), "Validate", nil, "separate", spare, gor, 10, nil, nil, "", "", false, true})
		}
	}
	for _, gor := range []int{2, 8} {
		scens = append(scens, scen{filepath.Join(dir, "flat.bop"), "Format", nil, "separate", 0, gor, 10, nil, nil, "", "", false, false})
		scens = append(scens, scen{filepath.Join(dir, "main.bop"), "ReadFile", nil, "separate", 0, gor, 10, nil, nil, "", "", false, true})
	}
	var events []map[string]interface{}
	runOnce := func(s scen) (res map[string]interface{}, race bool, crash string) {
		in, _ := json.Marshal(s)
		cmd := exec.Command(racer)
		cmd.Stdin = bytes.NewReader(in)
		cmd.Env = append(os.Environ(), "GORACE=halt_on_error=0 exitcode=66 atexit_sleep_ms=0")
		cmd.Dir = dir
		var so, se bytes.Buffer
		cmd.Stdout, cmd.Stderr = &so, &se
		done := make(chan error, 1)
		_ = cmd.Start()
		go func() { done <- cmd.Wait() }()
		select {
		case <-done:
		case <-time.After(120 * time.Second):
			_ = cmd.Process.Kill()
			return nil, false, "timeout"
		}
		race = strings.Contains(se.String(), "WARNING: DATA RACE")
		res = map[string]interface{}{}
		if err := json.Unmarshal(so.Bytes(), &res); err != nil {
			msg := se.String()
			if len(msg) > 300 {
				msg = msg[:300]
			}
			return nil, race, "no result: " + msg
		}
		return res, race, ""
	}
	// earlier calls in the same process: each single option, all of them, none of them, and two in a row
	histories := [][][]string{{{}}, {{"SharedMemoryStrings"}}, {{"PrivateDefinitions"}}, {{"AlwaysUsePointerReceivers"}}, {{"GenerateUnsafeMethods"}}, {{"GenerateFieldTags"}},
		{{"AlwaysUsePointerReceivers", "PrivateDefinitions", "GenerateFieldTags", "GenerateUnsafeMethods", "SharedMemoryStrings"}}, {{"GenerateUnsafeMethods", "SharedMemoryStrings"}, {}}}
	ncalls := 0
	for _, s := range scens {
		var hashes []string
		if s.Opts == nil {
			s.Opts = []string{}
		}
		ev := map[string]interface{}{"api": s.API, "opts": s.Opts, "mode": s.Mode, "spare": s.Spare, "goroutines": s.Goroutines, "imports": s.imports,
			"race": false, "identical": true, "unchanged": true, "crossproc": true, "history": true, "crash": "", "diff": ""}
		nproc := 3
		for p := 0; p < nproc; p++ {
			res, race, crash := runOnce(s)
			if crash != "" {
				ev["crash"] = crash
				break
			}
			if race {
				ev["race"] = true
			}
			if b, _ := res["identical"].(bool); !b {
				ev["identical"] = false
			}
			if b, _ := res["unchanged"].(bool); !b {
				ev["unchanged"] = false
				ev["diff"], _ = res["diff"].(string)
			}
			h, _ := res["hash"].(string)
			hashes = append(hashes, h)
		}
		for _, h := range hashes {
			if h != hashes[0] {
				ev["crossproc"] = false
			}
		}
		// a function of its input alone: the result must not depend on which calls the process made before
		if s.API == "Generate" && s.Goroutines == 2 && ev["crash"] == "" && len(hashes) > 0 {
			// ... nor on which OTHER schemas it has read, validated and generated before
			for k := 0; k <= len(otherFiles); k++ {
				hs := s
				hs.PreFiles = otherFiles
				if k < len(otherFiles) {
					hs.PreFiles = otherFiles[k : k+1]
				}
				hs.Goroutines, hs.Repeat = 1, 2
				res, _, crash := runOnce(hs)
				if crash != "" {
					ev["crash"] = "after generating other schemas: " + crash
					break
				}
				if h, _ := res["hash"].(string); h != hashes[0] {
					ev["history"] = false
				}
				ncalls += 2*len(hs.PreFiles) + 2
			}
			// ... nor on what an imported file contained when the process generated the schema before: the imported file is
			// rewritten (a field added), once after and once without an earlier Generate in the same process
			if s.imports {
				var hh []string
				for _, preGen := range []bool{false, true} {
					md := filepath.Join(c.Work, fmt.Sprintf("c14mut%d", ncalls))
					_ = os.MkdirAll(md, 0o755)
					var depText []byte
					for _, fn := range []string{"main.bop", "dep_b.bop", "dep_c.bop"} {
						b, _ := os.ReadFile(filepath.Join(filepath.Dir(s.Root), fn))
						if fn == "dep_b.bop" {
							depText = b
						}
						_ = os.WriteFile(filepath.Join(md, fn), b, 0o644)
					}
					hs := s
					hs.Root = filepath.Join(md, "main.bop")
					hs.MutatePath = filepath.Join(md, "dep_b.bop")
					hs.MutateText = strings.Replace(string(depText), "struct TB { int64 v; string w; }", "struct TB { int64 v; string w; guid added; }", 1)
					hs.PreGenerate = preGen
					hs.Goroutines, hs.Repeat = 1, 2
					res, _, crash := runOnce(hs)
					if crash != "" {
						ev["crash"] = "with a rewritten imported file: " + crash
						break
					}
					h, _ := res["hash"].(string)
					hh = append(hh, h)
					ncalls += 3
					_ = os.RemoveAll(md)
				}
				if len(hh) == 2 && hh[0] != hh[1] {
					ev["history"] = false
					ev["diff"] = fmt.Sprintf("rewritten imported file: without an earlier Generate %v, after one %v", hh[0][:12], hh[1][:12])
				}
			}
			for _, pre := range histories {
				hs := s
				hs.Pre = pre
				hs.Goroutines, hs.Repeat = 1, 2
				res, _, crash := runOnce(hs)
				if crash != "" {
					ev["crash"] = "after earlier calls with other settings: " + crash
					break
				}
				if h, _ := res["hash"].(string); h != hashes[0] {
					ev["history"] = false
				}
				if b, _ := res["unchanged"].(bool); !b {
					ev["unchanged"] = false
					ev["diff"], _ = res["diff"].(string)
				}
				ncalls += len(pre) + 2
			}
		}
		events = append(events, ev)
	}
	devs := c.OpenDevs("C14")
	dummy := []*parseCase{{Part: "x", Ci: 1}}
	vs, total, st, tr, err := judgeParseModule(c, "Trace_C14", devs, dummy, events)
	if err != nil {
		return 2, infra("%v", err)
	}
	reportParseVerdicts(c, vs, dummy, events, "c14")
	cov := Coverage{"evaluations": len(events)*3 + ncalls, "distinct_nontrivial": len(events), "samples": []interface{}{events[0], events[len(events)/2], events[len(events)-1]},
		"rule":   "scenarios = {no imports, separate, combined} x spare capacity {0,1,3} of each of the File's five slices x goroutines {2,8} x {Generate under 3 option sets, Validate, Format, ReadFile} on a schema with >= 4 entries in every map-typed table (messages, union branches, enums, consts); each scenario runs in 3 fresh processes of a -race build, 6-10 calls per goroutine; results must be byte-identical within and across processes and after earlier Generate calls with 8 other settings histories and after reading/validating/generating 3 other schemas (every primitive as map key, map value, array element) in the same process, the File (incl. s[:cap(s)]) unchanged, and the race detector silent; GenConcurrency.tla explores all interleavings of the design (copy-on-append) for 3 goroutines x 2 appends x spare 0..2",
		"states": states + st, "transitions": trans + tr, "traces_validated_against_impl": total["ok"] + total["known"], "scenarios": len(events), "open_deviations": devs,
		"explanation": "race-freedom of the executed schedules is decided by Go's race detector (happens-before based, so it covers every schedule with the same synchronisation structure); the TLA+ model explores the schedules of the design; there is no replay of a particular interleaving into the code (no scheduler hook)"}
	return c.Finish("exploration", cov, []string{"Go's race detector reports every pair of conflicting accesses without a happens-before edge in the executed run", "determinism across map iteration orders is sampled by 3 fresh processes x up to 80 calls per scenario"}), nil
}

func init() { Registry["C14"] = runC14 }
