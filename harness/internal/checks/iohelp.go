package checks

import (
	"bufio"
	"bytes"
	"encoding/json"
	"fmt"
	"io"
	"math"
	"os"
	"path/filepath"
	"strings"
	"sync"
	"time"

	"github.com/200sc/bebop/iohelp"

	"verif/harness/internal/tlc"
	"verif/harness/workerlib"
)

type primCase struct {
	T    string `json:"t"`
	K    int    `json:"k"`
	V    []int  `json:"v"`
	Wire []int  `json:"wire"`
}

func toBytes(a []int) []byte {
	b := make([]byte, len(a))
	for i, x := range a {
		b[i] = byte(x)
	}
	return b
}
func toInts(b []byte) []int {
	a := make([]int, len(b))
	for i, x := range b {
		a[i] = int(x)
	}
	return a
}
func leU(b []byte) uint64 {
	var n, mul uint64 = 0, 1
	for _, d := range b {
		n += uint64(d) * mul
		mul *= 256
	}
	return n
}
func digitsU(n uint64, w int) []byte {
	b := make([]byte, w)
	for i := range b {
		b[i] = byte(n % 256)
		n /= 256
	}
	return b
}

type oneByteReader struct {
	data []byte
	pos  int
}

func (r *oneByteReader) Read(p []byte) (int, error) {
	if r.pos >= len(r.data) {
		return 0, io.EOF
	}
	if len(p) == 0 {
		return 0, nil
	}
	p[0] = r.data[r.pos]
	r.pos++
	return 1, nil
}

// primOps performs the four iohelp calls for one primitive value.
// wb: Write*Bytes into an 0xAA-filled buffer; ws: Write* to a stream;
// rb: Read*Bytes(wire); rs: Read*(stream of wire, one byte per Read).
func primOps(t string, v, wire []byte) (wb, ws, rb, rs []byte, rerr bool) {
	w := len(wire)
	buf := bytes.Repeat([]byte{0xAA}, w+4)
	var sb bytes.Buffer
	ew := iohelp.NewErrorWriter(&sb)
	er := iohelp.NewErrorReader(&oneByteReader{data: append(append([]byte{}, wire...), 0x5A, 0x5A)})
	switch t {
	case "bool":
		x := v[0] == 1
		iohelp.WriteBoolBytes(buf, x)
		iohelp.WriteBool(ew, x)
		b2 := func(b bool) []byte {
			if b {
				return []byte{1}
			}
			return []byte{0}
		}
		rb = b2(iohelp.ReadBoolBytes(wire))
		rs = b2(iohelp.ReadBool(er))
		// a bool is written as 0 or 1 whatever the abstract byte was
		if v[0] != 0 && v[0] != 1 {
			return nil, nil, rb, rs, er.Err != nil
		}
	case "byte":
		iohelp.WriteByteBytes(buf, v[0])
		iohelp.WriteByte(ew, v[0])
		rb = []byte{iohelp.ReadByteBytes(wire)}
		rs = []byte{iohelp.ReadByte(er)}
	case "uint8":
		iohelp.WriteUint8Bytes(buf, v[0])
		iohelp.WriteUint8(ew, v[0])
		rb = []byte{iohelp.ReadUint8Bytes(wire)}
		rs = []byte{iohelp.ReadUint8(er)}
	case "uint16":
		x := uint16(leU(v))
		iohelp.WriteUint16Bytes(buf, x)
		iohelp.WriteUint16(ew, x)
		rb = digitsU(uint64(iohelp.ReadUint16Bytes(wire)), 2)
		rs = digitsU(uint64(iohelp.ReadUint16(er)), 2)
	case "int16":
		x := int16(uint16(leU(v)))
		iohelp.WriteInt16Bytes(buf, x)
		iohelp.WriteInt16(ew, x)
		rb = digitsU(uint64(uint16(iohelp.ReadInt16Bytes(wire))), 2)
		rs = digitsU(uint64(uint16(iohelp.ReadInt16(er))), 2)
	case "uint32":
		x := uint32(leU(v))
		iohelp.WriteUint32Bytes(buf, x)
		iohelp.WriteUint32(ew, x)
		rb = digitsU(uint64(iohelp.ReadUint32Bytes(wire)), 4)
		rs = digitsU(uint64(iohelp.ReadUint32(er)), 4)
	case "int32":
		x := int32(uint32(leU(v)))
		iohelp.WriteInt32Bytes(buf, x)
		iohelp.WriteInt32(ew, x)
		rb = digitsU(uint64(uint32(iohelp.ReadInt32Bytes(wire))), 4)
		rs = digitsU(uint64(uint32(iohelp.ReadInt32(er))), 4)
	case "uint64":
		x := leU(v)
		iohelp.WriteUint64Bytes(buf, x)
		iohelp.WriteUint64(ew, x)
		rb = digitsU(iohelp.ReadUint64Bytes(wire), 8)
		rs = digitsU(iohelp.ReadUint64(er), 8)
	case "int64":
		x := int64(leU(v))
		iohelp.WriteInt64Bytes(buf, x)
		iohelp.WriteInt64(ew, x)
		rb = digitsU(uint64(iohelp.ReadInt64Bytes(wire)), 8)
		rs = digitsU(uint64(iohelp.ReadInt64(er)), 8)
	case "float32":
		x := math.Float32frombits(uint32(leU(v)))
		iohelp.WriteFloat32Bytes(buf, x)
		iohelp.WriteFloat32(ew, x)
		rb = digitsU(uint64(math.Float32bits(iohelp.ReadFloat32Bytes(wire))), 4)
		rs = digitsU(uint64(math.Float32bits(iohelp.ReadFloat32(er))), 4)
	case "float64":
		x := math.Float64frombits(leU(v))
		iohelp.WriteFloat64Bytes(buf, x)
		iohelp.WriteFloat64(ew, x)
		rb = digitsU(math.Float64bits(iohelp.ReadFloat64Bytes(wire)), 8)
		rs = digitsU(math.Float64bits(iohelp.ReadFloat64(er)), 8)
	case "guid":
		var g [16]byte
		copy(g[:], v)
		iohelp.WriteGUIDBytes(buf, g)
		iohelp.WriteGUID(ew, g)
		g1 := iohelp.ReadGUIDBytes(wire)
		g2 := iohelp.ReadGUID(er)
		rb, rs = g1[:], g2[:]
	case "date":
		// the date writers live in the generated code; iohelp only reads
		t1 := iohelp.ReadDateBytes(wire)
		t2 := iohelp.ReadDate(er)
		rb = digitsU(uint64(workerlib.TimeToTicks(t1)), 8)
		rs = digitsU(uint64(workerlib.TimeToTicks(t2)), 8)
		// the zero time and tick 0 correspond
		if leU(v) == 0 && (!t1.IsZero() || !t2.IsZero()) {
			rb = []byte{0xBA, 0xD0}
		}
		if leU(v) != 0 && (t1.IsZero() || t1.Location().String() != "UTC") {
			rb = []byte{0xBA, 0xD1}
		}
		return toBytes(toInts(wire)), toBytes(toInts(wire)), rb, rs, er.Err != nil
	}
	return buf[:w], sb.Bytes(), rb, rs, er.Err != nil || !bytes.Equal(buf[w:], []byte{0xAA, 0xAA, 0xAA, 0xAA})
}

// byteFns: the byte-slice reader and writer of each fixed-width primitive, on raw little-endian values.
func byteRead(t string, buf []byte) []byte {
	switch t {
	case "bool":
		if iohelp.ReadBoolBytes(buf) {
			return []byte{1}
		}
		return []byte{0}
	case "byte":
		return []byte{iohelp.ReadByteBytes(buf)}
	case "uint8":
		return []byte{iohelp.ReadUint8Bytes(buf)}
	case "uint16":
		return digitsU(uint64(iohelp.ReadUint16Bytes(buf)), 2)
	case "int16":
		return digitsU(uint64(uint16(iohelp.ReadInt16Bytes(buf))), 2)
	case "uint32":
		return digitsU(uint64(iohelp.ReadUint32Bytes(buf)), 4)
	case "int32":
		return digitsU(uint64(uint32(iohelp.ReadInt32Bytes(buf))), 4)
	case "uint64":
		return digitsU(iohelp.ReadUint64Bytes(buf), 8)
	case "int64":
		return digitsU(uint64(iohelp.ReadInt64Bytes(buf)), 8)
	case "float32":
		return digitsU(uint64(math.Float32bits(iohelp.ReadFloat32Bytes(buf))), 4)
	case "float64":
		return digitsU(math.Float64bits(iohelp.ReadFloat64Bytes(buf)), 8)
	case "guid":
		g := iohelp.ReadGUIDBytes(buf)
		return g[:]
	case "date":
		return digitsU(uint64(workerlib.TimeToTicks(iohelp.ReadDateBytes(buf))), 8)
	}
	return nil
}

func byteWrite(t string, buf []byte, v []byte) bool {
	switch t {
	case "bool":
		iohelp.WriteBoolBytes(buf, v[0] == 1)
	case "byte":
		iohelp.WriteByteBytes(buf, v[0])
	case "uint8":
		iohelp.WriteUint8Bytes(buf, v[0])
	case "uint16":
		iohelp.WriteUint16Bytes(buf, uint16(leU(v)))
	case "int16":
		iohelp.WriteInt16Bytes(buf, int16(uint16(leU(v))))
	case "uint32":
		iohelp.WriteUint32Bytes(buf, uint32(leU(v)))
	case "int32":
		iohelp.WriteInt32Bytes(buf, int32(uint32(leU(v))))
	case "uint64":
		iohelp.WriteUint64Bytes(buf, leU(v))
	case "int64":
		iohelp.WriteInt64Bytes(buf, int64(leU(v)))
	case "float32":
		iohelp.WriteFloat32Bytes(buf, math.Float32frombits(uint32(leU(v))))
	case "float64":
		iohelp.WriteFloat64Bytes(buf, math.Float64frombits(leU(v)))
	case "guid":
		var g [16]byte
		copy(g[:], v)
		iohelp.WriteGUIDBytes(buf, g)
	default:
		return false
	}
	return true
}

// streamRead reads one value of type t from er and returns it as raw little-endian wire bytes (strings: the bytes).
func streamRead(t string, er *iohelp.ErrorReader) []byte {
	switch t {
	case "bool":
		if iohelp.ReadBool(er) {
			return []byte{1}
		}
		return []byte{0}
	case "byte":
		return []byte{iohelp.ReadByte(er)}
	case "uint8":
		return []byte{iohelp.ReadUint8(er)}
	case "uint16":
		return digitsU(uint64(iohelp.ReadUint16(er)), 2)
	case "int16":
		return digitsU(uint64(uint16(iohelp.ReadInt16(er))), 2)
	case "uint32":
		return digitsU(uint64(iohelp.ReadUint32(er)), 4)
	case "int32":
		return digitsU(uint64(uint32(iohelp.ReadInt32(er))), 4)
	case "uint64":
		return digitsU(iohelp.ReadUint64(er), 8)
	case "int64":
		return digitsU(uint64(iohelp.ReadInt64(er)), 8)
	case "float32":
		return digitsU(uint64(math.Float32bits(iohelp.ReadFloat32(er))), 4)
	case "float64":
		return digitsU(math.Float64bits(iohelp.ReadFloat64(er)), 8)
	case "guid":
		g := iohelp.ReadGUID(er)
		var w [16]byte
		iohelp.WriteGUIDBytes(w[:], g)
		return w[:]
	case "date":
		return digitsU(uint64(workerlib.TimeToTicks(iohelp.ReadDate(er))), 8)
	case "string":
		s := iohelp.ReadString(er)
		return append(digitsU(uint64(len(s)), 4), []byte(s)...)
	}
	return nil
}

func safely(f func()) (p string) {
	defer func() {
		if r := recover(); r != nil {
			p = fmt.Sprint(r)
			if len(p) > 150 {
				p = p[:150]
			}
		}
	}()
	f()
	return ""
}

type shortReader struct {
	data []byte
	pos  int
}

func (r *shortReader) Read(p []byte) (int, error) {
	if r.pos >= len(r.data) {
		return 0, io.ErrUnexpectedEOF
	}
	n := copy(p, r.data[r.pos:])
	r.pos += n
	return n, nil
}

// staleRun: a successful read of `first`, then a read of type t for which only j bytes are left.
func staleRun(t string, w int, fill byte, j int) (val []byte, errset bool) {
	return staleRunOn("plain", t, w, fill, j)
}

// staleRunOn: kind selects the reader under the ErrorReader - a plain io.Reader, or one of the standard readers that
// also implement io.ByteReader, io.WriterTo, io.Seeker ... (helpers may take shortcuts through those interfaces)
func staleRunOn(kind, t string, w int, fill byte, j int) (val []byte, errset bool) {
	first := bytes.Repeat([]byte{fill}, w)
	fresh := bytes.Repeat([]byte{0x01}, j)
	data := append(append([]byte{}, first...), fresh...)
	var under io.Reader = &shortReader{data: data}
	switch kind {
	case "bytes.Reader":
		under = bytes.NewReader(data)
	case "bytes.Buffer":
		under = bytes.NewBuffer(data)
	case "bufio.Reader":
		under = bufio.NewReader(&shortReader{data: data})
	}
	er := iohelp.NewErrorReader(under)
	read := func() []byte {
		switch t {
		case "bool":
			if iohelp.ReadBool(er) {
				return []byte{1}
			}
			return []byte{0}
		case "byte":
			return []byte{iohelp.ReadByte(er)}
		case "uint8":
			return []byte{iohelp.ReadUint8(er)}
		case "uint16":
			return digitsU(uint64(iohelp.ReadUint16(er)), 2)
		case "int16":
			return digitsU(uint64(uint16(iohelp.ReadInt16(er))), 2)
		case "uint32":
			return digitsU(uint64(iohelp.ReadUint32(er)), 4)
		case "int32":
			return digitsU(uint64(uint32(iohelp.ReadInt32(er))), 4)
		case "uint64":
			return digitsU(iohelp.ReadUint64(er), 8)
		case "int64":
			return digitsU(uint64(iohelp.ReadInt64(er)), 8)
		case "float32":
			return digitsU(uint64(math.Float32bits(iohelp.ReadFloat32(er))), 4)
		case "float64":
			return digitsU(math.Float64bits(iohelp.ReadFloat64(er)), 8)
		case "guid":
			g := iohelp.ReadGUID(er)
			return g[:]
		case "date":
			d := iohelp.ReadDate(er)
			return digitsU(uint64(d.UnixNano()), 8)
		case "string":
			return []byte(iohelp.ReadString(er))
		}
		return nil
	}
	_ = read()
	val = read()
	return val, er.Err != nil
}

var c20Widths = map[string]int{"bool": 1, "byte": 1, "uint8": 1, "uint16": 2, "int16": 2, "uint32": 4, "int32": 4,
	"uint64": 8, "int64": 8, "float32": 4, "float64": 8, "guid": 16, "date": 8}

func init() {
	Registry["C20"] = runC20
}

func runC20(c *Ctx) (int, error) {
	specDir := filepath.Join(Root, "spec")
	var cases []*primCase
	var mu sync.Mutex
	g := &tlc.Run{SpecDir: specDir, Scratch: filepath.Join(c.Work, "gen"), Module: "Gen_IoHelp", Workers: 16, Timeout: 15 * time.Minute,
		Cfg: fmt.Sprintf("CONSTANTS\n  Tier = %q\n  Seed = %d\nINIT Init\nNEXT Next\nINVARIANTS ReadOfWrite Export\nCHECK_DEADLOCK FALSE\n", c.Tier, c.Seed),
		OnLine: func(tag, js string) {
			if tag == "PRIM" {
				pc := &primCase{}
				if json.Unmarshal([]byte(js), pc) == nil {
					mu.Lock()
					cases = append(cases, pc)
					mu.Unlock()
				}
			}
		}}
	gr, err := g.Exec()
	if err != nil {
		return 2, infra("Gen_IoHelp: %v", err)
	}
	if gr.Violated != "" {
		return 2, infra("Gen_IoHelp: theorem %s fails on the model", gr.Violated)
	}
	if len(cases) == 0 {
		return 2, infra("Gen_IoHelp produced no cases")
	}
	evPath := filepath.Join(c.Work, "events.ndjson")
	f, err := os.Create(evPath)
	if err != nil {
		return 2, infra("%v", err)
	}
	w := bufio.NewWriterSize(f, 1<<20)
	enc := json.NewEncoder(w)
	n := 0
	var lines []map[string]interface{}
	put := func(m map[string]interface{}) {
		n++
		_ = enc.Encode(m)
		if len(lines) < 200000 {
			lines = append(lines, m)
		}
	}
	perType := map[string]int{}
	for _, pc := range cases {
		perType[pc.T]++
		v, wire := toBytes(pc.V), toBytes(pc.Wire)
		if pc.T == "string" {
			// declared lengths around the buffer's
			body := v
			for _, decl := range []int{len(body) - 1, len(body), len(body) + 1, len(body) + 300, 1 << 31, 0xFFFFFFFF} {
				if decl < 0 {
					continue
				}
				for _, availBody := range []int{len(body), len(body) - 1, 0} {
					if availBody < 0 {
						continue
					}
					hdr := digitsU(uint64(decl), 4)
					buf := append(append([]byte{}, hdr...), body[:availBody]...)
					short := decl > availBody
					want := []int{}
					if !short {
						want = toInts(body[:decl])
					}
					for _, fn := range []string{"ReadStringBytes", "ReadStringBytesSharedMemory"} {
						var s string
						var rerr error
						pn := safely(func() {
							if fn == "ReadStringBytes" {
								s, rerr = iohelp.ReadStringBytes(buf)
							} else {
								s, rerr = iohelp.ReadStringBytesSharedMemory(buf)
							}
						})
						res := "nil"
						if rerr != nil {
							res = "err"
						}
						put(map[string]interface{}{"ev": "str", "fn": fn, "decl": decl % (1 << 30), "avail": availBody, "short": short, "res": res, "val": toInts([]byte(s)), "want": want, "panic": pn})
					}
				}
			}
			// too short for the length prefix itself
			for cut := 0; cut < 4; cut++ {
				buf := wire
				if len(buf) > cut {
					buf = buf[:cut]
				}
				var rerr error
				pn := safely(func() { _, rerr = iohelp.ReadStringBytes(buf) })
				res := "nil"
				if rerr != nil {
					res = "err"
				}
				put(map[string]interface{}{"ev": "str", "fn": "ReadStringBytes", "decl": 0, "avail": cut - 4, "short": true, "res": res, "val": []int{}, "want": []int{}, "panic": pn})
			}
			// stream: ReadString of the reference wire
			var s string
			er := iohelp.NewErrorReader(&oneByteReader{data: wire})
			pn := safely(func() { s = iohelp.ReadString(er) })
			res := "nil"
			if er.Err != nil {
				res = "err"
			}
			put(map[string]interface{}{"ev": "str", "fn": "ReadString", "decl": len(body), "avail": len(body), "short": false, "res": res, "val": toInts([]byte(s)), "want": toInts(body), "panic": pn})
			continue
		}
		var wb, ws, rb, rs []byte
		var rerr bool
		pn := safely(func() { wb, ws, rb, rs, rerr = primOps(pc.T, v, wire) })
		m := map[string]interface{}{"ev": "prim", "t": pc.T, "v": pc.V, "wb": toInts(wb), "ws": toInts(ws), "rb": toInts(rb), "rs": toInts(rs), "rerr": rerr, "panic": pn}
		if wb == nil && pn == "" {
			// (bool bytes other than 0/1 cannot be written: judge only the read side)
			m["wb"], m["ws"] = pc.Wire, pc.Wire
		}
		put(m)
	}
	// buffer lengths around the width: a slice of n bytes inside a larger array with a recognisable pattern behind it.
	// n < width: the call must not return (it would have used bytes that are not in the slice) and must not write behind
	// the slice; n >= width: the first `width` bytes are the value, the rest is neither read nor written.
	for t, wd := range c20Widths {
		for n := 0; n <= wd+3; n++ {
			backing := make([]byte, wd+16)
			for i := range backing {
				backing[i] = byte(0x31 + 7*i)
			}
			if t == "bool" {
				backing[0] = 1
			}
			if t == "date" {
				backing[7] = 0x01 // keep the tick count inside the range every conversion handles
			}
			// the reference: the same function on exactly `width` bytes (its correctness is the "prim" events' business)
			var want []byte
			_ = safely(func() { want = byteRead(t, append([]byte{}, backing[:wd]...)) })
			var got []byte
			pn := safely(func() { got = byteRead(t, backing[:n]) })
			put(map[string]interface{}{"ev": "blen", "op": "read", "t": t, "n": n, "w": wd, "returned": pn == "", "val": toInts(got), "want": toInts(want), "behind": false})
			if t == "date" {
				continue
			}
			val := bytes.Repeat([]byte{0xC3}, wd)
			if t == "bool" {
				val = []byte{1}
			}
			before := append([]byte{}, backing...)
			pw := safely(func() { byteWrite(t, backing[:n], val) })
			lim := n
			if n > wd {
				lim = wd
			}
			behind := !bytes.Equal(backing[lim:], before[lim:])
			put(map[string]interface{}{"ev": "blen", "op": "write", "t": t, "n": n, "w": wd, "returned": pw == "", "val": toInts(backing[:lim]), "want": toInts(val[:lim]), "behind": behind})
		}
	}
	// sequences: several values read from ONE ErrorReader (its scratch buffer and error latch are shared state): every
	// ordered pair of types, and every triple that starts with a guid, a string or a 64-bit value; each value must come
	// back and the reader must have consumed exactly the bytes of the values
	{
		wire := map[string][]byte{"bool": {1}, "byte": {0x7b}, "uint8": {0xfe}, "uint16": {0x34, 0x12}, "int16": {0xfe, 0xff}, "uint32": {1, 2, 3, 4}, "int32": {0xff, 0xff, 0xff, 0x7f},
			"uint64": {1, 2, 3, 4, 5, 6, 7, 8}, "int64": {0xf8, 0xff, 0xff, 0xff, 0xff, 0xff, 0xff, 0xff}, "float32": {0, 0, 0xc0, 0x3f}, "float64": {0, 0, 0, 0, 0, 0, 0xf8, 0x3f},
			"guid": {0, 1, 2, 3, 4, 5, 6, 7, 8, 9, 10, 11, 12, 13, 14, 15}, "date": {0, 0, 0x68, 0x4c, 0xea, 0xd7, 0x38, 0}, "string": {9, 0, 0, 0, 'l', 'o', 'n', 'g', 'e', 'r', ' ', 's', 't'}}
		types := []string{"bool", "byte", "uint8", "uint16", "int16", "uint32", "int32", "uint64", "int64", "float32", "float64", "guid", "date", "string"}
		var seqs [][]string
		for _, a := range types {
			for _, b := range types {
				seqs = append(seqs, []string{a, b})
				if a == "guid" || a == "string" || a == "uint64" || a == "date" {
					for _, c3 := range []string{"uint64", "int64", "float64", "date", "guid", "string", "bool"} {
						seqs = append(seqs, []string{a, b, c3})
					}
				}
			}
		}
		for _, sq := range seqs {
			var stream []byte
			for _, t := range sq {
				stream = append(stream, wire[t]...)
			}
			for _, kind := range []string{"plain", "bytes.Reader"} {
				pr := &shortReader{data: append(append([]byte{}, stream...), 0xEE, 0xEE, 0xEE, 0xEE, 0xEE, 0xEE, 0xEE, 0xEE, 0xEE, 0xEE, 0xEE, 0xEE, 0xEE, 0xEE, 0xEE, 0xEE)}
				var under io.Reader = pr
				var br *bytes.Reader
				if kind == "bytes.Reader" {
					br = bytes.NewReader(pr.data)
					under = br
				}
				er := iohelp.NewErrorReader(under)
				okAll, bad := true, ""
				pn := safely(func() {
					for i, t := range sq {
						if got := streamRead(t, er); !bytes.Equal(got, wire[t]) {
							okAll = false
							if bad == "" {
								bad = fmt.Sprintf("value %d (%s)", i+1, t)
							}
						}
					}
				})
				consumed := pr.pos
				if br != nil {
					consumed = len(pr.data) - br.Len()
				}
				put(map[string]interface{}{"ev": "seq", "types": sq, "reader": kind, "ok": okAll, "bad": bad, "consumed": consumed, "want": len(stream), "err": er.Err != nil, "panic": pn})
			}
		}
	}
	// stale scratch: every stream reader, every short length j < w, two different previous reads
	for t, wd := range c20Widths {
		for j := 0; j < wd; j++ {
			var a, b []byte
			var ea, eb bool
			pn := safely(func() {
				a, ea = staleRun(t, wd, 0x11, j)
				b, eb = staleRun(t, wd, 0xEE, j)
			})
			put(map[string]interface{}{"ev": "stale", "t": t, "j": j, "a": toInts(a), "b": toInts(b), "errset": ea && eb, "panic": pn})
			for _, kind := range []string{"bytes.Reader", "bytes.Buffer", "bufio.Reader"} {
				kind := kind
				pn := safely(func() {
					a, ea = staleRunOn(kind, t, wd, 0x11, j)
					b, eb = staleRunOn(kind, t, wd, 0xEE, j)
				})
				put(map[string]interface{}{"ev": "stale", "t": t + " over a " + kind, "j": j, "a": toInts(a), "b": toInts(b), "errset": ea && eb, "panic": pn})
			}
		}
	}
	// ... and ReadString: an 8-byte value is read first, then a string of declared length n whose body is cut after j bytes
	for n := 1; n <= 12; n++ {
		for j := 0; j < n; j++ {
			run := func(fill byte) ([]byte, bool) {
				data := append(bytes.Repeat([]byte{fill}, 8), digitsU(uint64(n), 4)...)
				data = append(data, bytes.Repeat([]byte{0x01}, j)...)
				er := iohelp.NewErrorReader(&shortReader{data: data})
				_ = iohelp.ReadUint64(er)
				s := iohelp.ReadString(er)
				return []byte(s), er.Err != nil
			}
			var a, b []byte
			var ea, eb bool
			pn := safely(func() {
				a, ea = run(0x41)
				b, eb = run(0x7A)
			})
			put(map[string]interface{}{"ev": "stale", "t": "string", "j": j, "a": toInts(a), "b": toInts(b), "errset": ea && eb, "panic": pn})
		}
	}
	w.Flush()
	f.Close()
	// judge
	type vd struct {
		L   int    `json:"l"`
		Why string `json:"why"`
	}
	var vds []vd
	counts := map[string]int{}
	j := &tlc.Run{SpecDir: specDir, Scratch: filepath.Join(c.Work, "judge"), Module: "Trace_IoHelp", Workers: 1, Timeout: 20 * time.Minute,
		Cfg:   "SPECIFICATION Spec\nINVARIANT Done\nPOSTCONDITION TraceAccepted\nCHECK_DEADLOCK FALSE\n",
		Files: map[string]string{"events.ndjson": evPath},
		OnLine: func(tag, js string) {
			switch tag {
			case "V":
				var v vd
				if json.Unmarshal([]byte(js), &v) == nil {
					vds = append(vds, v)
				}
			case "COUNTS":
				_ = json.Unmarshal([]byte(js), &counts)
			}
		}}
	jr, err := j.Exec()
	if err != nil {
		return 2, infra("Trace_IoHelp: %v", err)
	}
	if jr.Violated != "" || counts["ok"]+counts["viol"] != n {
		return 2, infra("Trace_IoHelp did not consume the trace (%d of %d): %s\n%s", counts["ok"]+counts["viol"], n, jr.Violated, strings.Join(jr.Tail, "\n"))
	}
	seen := map[string]bool{}
	for _, v := range vds {
		if seen[v.Why] {
			c.violations++
			continue
		}
		seen[v.Why] = true
		var ev interface{}
		if v.L-1 < len(lines) {
			ev = lines[v.L-1]
		}
		c.Violation(v.Why, map[string]interface{}{"kind": "iohelp", "event": ev})
	}
	cov := Coverage{
		"states": gr.Distinct + jr.Distinct, "transitions": gr.Generated + jr.Generated,
		"traces_validated_against_impl": counts["ok"], "events_total": n,
		"samples":     []interface{}{lines[0], lines[len(lines)/2], lines[len(lines)-1]},
		"evaluations": n, "distinct_nontrivial": len(cases),
		"rule":                "values = TLC-enumerated: all 2^8 / 2^16 values of the 8/16-bit types (exhaustive), boundary values + seeded pseudo-random bit patterns for wider types incl. NaN payloads, GUID patterns, date ticks; strings with declared lengths around the buffer length; every stream reader after a short read of j < width bytes with two different previous reads",
		"values_per_type":     perType,
		"exhaustive":          false,
		"exhaustive_8_16_bit": true,
		"gen_model_states":    gr.Distinct,
	}
	return c.Finish("model_checking", cov, []string{"BebopWire.EncPrim/DecPrim/GuidPerm are the reference layouts", "digit-to-typed-value conversion in the harness uses its own arithmetic, not encoding/binary or unsafe"}), nil
}
