package checks

import (
	"encoding/json"
	"errors"
	"fmt"
	"io"
	"path/filepath"
	"sort"
	"strconv"
	"strings"
	"sync"
	"time"

	"github.com/200sc/bebop"

	"verif/harness/internal/ast"
	"verif/harness/internal/tlc"
)

type itemCase struct {
	Items   []string `json:"items"`
	Verdict string   `json:"verdict"`
	Imports int      `json:"imports"`
	Defs    []struct {
		Kind      string `json:"kind"`
		At        int    `json:"at"`
		Opcode    int    `json:"opcode"`
		Ro        bool   `json:"ro"`
		NComments int    `json:"ncomments"`
		BlockC    bool   `json:"blockc"`
	} `json:"defs"`
}

// concretise renders an item sequence of ParserLoop.tla as schema text: one item per line
// (readonly shares the line of the struct it precedes); names carry the item's position.
func concretise(items []string) string {
	var b strings.Builder
	for i, it := range items {
		p := i + 1
		switch it {
		case "opcode":
			fmt.Fprintf(&b, "[opcode(%d)]\n", p)
		case "flags":
			b.WriteString("[flags]\n")
		case "readonly":
			if i+1 < len(items) && items[i+1] == "struct" {
				b.WriteString("readonly ")
			} else {
				b.WriteString("readonly\n")
			}
		case "linecomment":
			fmt.Fprintf(&b, "// c%d\n", p)
		case "blockcomment":
			fmt.Fprintf(&b, "/* c%d */\n", p)
		case "blank":
			b.WriteString("\n")
		case "import":
			fmt.Fprintf(&b, "import \"f%d.bop\"\n", p)
		case "struct":
			fmt.Fprintf(&b, "struct D%d {\n\tint32 a;\n}\n", p)
		case "message":
			fmt.Fprintf(&b, "message D%d {\n\t1 -> int32 a;\n}\n", p)
		case "union":
			fmt.Fprintf(&b, "union D%d {\n\t1 -> struct D%dA {\n\t\tint32 a;\n\t}\n}\n", p, p)
		case "enum":
			fmt.Fprintf(&b, "enum D%d {\n\tA = 1;\n}\n", p)
		case "const":
			fmt.Fprintf(&b, "const int32 D%d = 1;\n", p)
		case "stray":
			b.WriteString("$\n")
		case "opencomment":
			b.WriteString("/* never closed\n")
		case "openstring":
			b.WriteString("\"never closed\n")
		}
	}
	return b.String()
}

type obsDef struct {
	Kind      string `json:"kind"`
	At        int    `json:"at"`
	Opcode    int    `json:"opcode"`
	Ro        bool   `json:"ro"`
	NComments int    `json:"ncomments"`
}

func nLines(s string) int {
	if s == "" {
		return 0
	}
	return strings.Count(s, "\n") + 1
}

func posOf(name string) int {
	n, _ := strconv.Atoi(strings.TrimLeft(name, "Dd"))
	return n
}

func observedDefs(f bebop.File) []obsDef {
	out := []obsDef{}
	for _, s := range f.Structs {
		out = append(out, obsDef{"struct", posOf(s.Name), int(s.OpCode), s.ReadOnly, nLines(s.Comment)})
	}
	for _, m := range f.Messages {
		out = append(out, obsDef{"message", posOf(m.Name), int(m.OpCode), false, nLines(m.Comment)})
	}
	for _, u := range f.Unions {
		out = append(out, obsDef{"union", posOf(u.Name), int(u.OpCode), false, nLines(u.Comment)})
	}
	for _, e := range f.Enums {
		out = append(out, obsDef{"enum", posOf(e.Name), 0, false, nLines(e.Comment)})
	}
	for _, c := range f.Consts {
		out = append(out, obsDef{"const", posOf(c.Name), 0, false, nLines(c.Comment)})
	}
	sort.Slice(out, func(i, j int) bool { return out[i].At < out[j].At })
	return out
}

type failingReader struct {
	data  []byte
	k     int
	pos   int
	err   error
	style string
}

func (r *failingReader) Read(p []byte) (int, error) {
	if len(p) == 0 {
		return 0, nil
	}
	if r.pos >= r.k {
		return 0, r.err
	}
	avail := r.data[r.pos:r.k]
	if r.style == "byte" {
		avail = avail[:1]
	}
	n := copy(p, avail)
	r.pos += n
	if r.style == "with" && r.pos >= r.k {
		return n, r.err
	}
	return n, nil
}

const appended = "\nstruct Zq9 {\n\tint32 a;\n}\n"

func runC10(c *Ctx) (int, error) {
	specDir := filepath.Join(Root, "spec")
	maxLen := 4
	if c.Tier == "thorough" {
		maxLen = 5
	}
	// (a) ParserLoop: model check the ideal loop and export every item sequence with its verdict
	var icases []*itemCase
	var mu sync.Mutex
	pl := &tlc.Run{SpecDir: specDir, Scratch: filepath.Join(c.Work, "parserloop"), Module: "ParserLoop", Workers: 16, Timeout: 25 * time.Minute,
		Cfg: fmt.Sprintf("CONSTANTS\n  MaxLen = %d\n  Devs = {}\nSPECIFICATION Spec\nINVARIANTS AttachExactlyOnce NoSilentDrop Export\nPROPERTIES NoLeak Terminates\nCHECK_DEADLOCK FALSE\n", maxLen),
		OnLine: func(tag, js string) {
			if tag == "ICASE" {
				ic := &itemCase{}
				if json.Unmarshal([]byte(js), ic) == nil {
					mu.Lock()
					icases = append(icases, ic)
					mu.Unlock()
				}
			}
		}}
	plr, err := pl.Exec()
	if err != nil {
		return 2, infra("ParserLoop: %v", err)
	}
	if plr.Violated != "" {
		return 2, infra("ParserLoop.tla violates %s in its ideal instantiation (spec bug)", plr.Violated)
	}
	// (b) token strings
	var tcases [][]string
	var ecases [][]string
	var ccases [][]string
	var qcases [][]string
	gt := &tlc.Run{SpecDir: specDir, Scratch: filepath.Join(c.Work, "gentokens"), Module: "Gen_Tokens", Workers: 16, Timeout: 25 * time.Minute,
		Cfg: fmt.Sprintf("CONSTANTS\n  Tier = %q\n  Seed = %d\nINIT Init\nNEXT Next\nINVARIANTS Export\nCHECK_DEADLOCK FALSE\n", c.Tier, c.Seed),
		OnLine: func(tag, js string) {
			if tag == "ECASE" {
				var t struct {
					Expr []string `json:"expr"`
				}
				if json.Unmarshal([]byte(js), &t) == nil {
					mu.Lock()
					ecases = append(ecases, t.Expr)
					mu.Unlock()
				}
			}
			if tag == "QCASE" {
				var t struct {
					Chars []string `json:"chars"`
				}
				if json.Unmarshal([]byte(js), &t) == nil {
					mu.Lock()
					qcases = append(qcases, t.Chars)
					mu.Unlock()
				}
			}
			if tag == "CCASE" {
				var t struct {
					Chars []string `json:"chars"`
				}
				if json.Unmarshal([]byte(js), &t) == nil {
					mu.Lock()
					ccases = append(ccases, t.Chars)
					mu.Unlock()
				}
			}
			if tag == "TCASE" {
				var t struct {
					Toks []string `json:"toks"`
				}
				if json.Unmarshal([]byte(js), &t) == nil {
					mu.Lock()
					tcases = append(tcases, t.Toks)
					mu.Unlock()
				}
			}
		}}
	gtr, err := gt.Exec()
	if err != nil {
		return 2, infra("Gen_Tokens: %v", err)
	}
	// (c) valid schemas for reader faults
	pcases, gpr, err := genParseCases(c, "Gen_Parse", "Wellformed Export", "")
	if err != nil {
		return 2, err
	}
	if len(icases) == 0 || len(tcases) == 0 {
		return 2, infra("no cases")
	}
	var events []map[string]interface{}
	timeouts := 0
	read := func(text string) (string, string, bebop.File) {
		var f bebop.File
		res, msg := guarded(5*time.Second, func() error {
			var err error
			f, _, err = bebop.ReadFile(strings.NewReader(text))
			return err
		})
		if res == "timeout" {
			timeouts++
		}
		return res, msg, f
	}
	skippedOpen := 0
	hung := func() bool { return timeouts >= 3 }
	for _, ic := range icases {
		if hung() {
			break
		}
		// an unterminated comment is closed by the "*/" of a later block comment: not the error the model means
		open := false
		closed := false
		for _, it := range ic.Items {
			if it == "opencomment" {
				open = true
			} else if it == "blockcomment" && open {
				closed = true
			}
		}
		nOpenStr := 0
		for _, it := range ic.Items {
			if it == "openstring" {
				nOpenStr++
			}
		}
		if nOpenStr >= 2 {
			closed = true // the second opening quote closes the first string
		}
		if closed {
			skippedOpen++
			continue
		}
		text := concretise(ic.Items)
		res, msg, f := read(text)
		var want []obsDef
		anyBlock := false
		for _, d := range ic.Defs {
			op := 0
			if d.Opcode != 0 {
				op = d.Opcode
			}
			want = append(want, obsDef{d.Kind, d.At, op, d.Ro, d.NComments})
			anyBlock = anyBlock || d.BlockC
		}
		for _, it := range ic.Items {
			if it == "blockcomment" {
				anyBlock = true // whether a blank line detaches a block comment is left open: compare no comment counts
			}
		}
		got := []obsDef{}
		if res == "nil" {
			got = observedDefs(f)
		}
		if want == nil {
			want = []obsDef{}
		}
		if anyBlock {
			for i := range want {
				want[i].NComments = 0
			}
			for i := range got {
				got[i].NComments = 0
			}
		}
		lexerr, reason := false, "is not a sequence of well-formed definitions"
		for _, it := range ic.Items {
			if it == "stray" || it == "opencomment" || it == "openstring" {
				lexerr = true
				reason = "contains a lexical error (stray byte, unterminated comment or string)"
			}
		}
		events = append(events, map[string]interface{}{"ev": "items", "items": ic.Items, "verdict": ic.Verdict, "res": res, "msg": msg,
			"defs": got, "wdefs": want, "imports": len(f.Imports), "wimports": ic.Imports, "text": text, "lexerr": lexerr, "reason": reason})
	}
	for _, toks := range tcases {
		if hung() {
			break
		}
		var b strings.Builder
		lex := false
		for i, t := range toks {
			if i > 0 {
				b.WriteByte(' ')
			}
			if t == "@BYTE255" {
				b.WriteByte(0xFF)
				lex = true
			} else {
				b.WriteString(t)
			}
			switch t {
			case "$", "/* open", "\"open", "-", "/", "0x", "1.", "1e":
				lex = true
			}
		}
		text := b.String()
		res, _, _ := read(text)
		res2, seen := "", false
		if res == "nil" {
			var f2 bebop.File
			res2, _, f2 = read(text + appended)
			for _, s := range f2.Structs {
				if s.Name == "Zq9" {
					seen = true
				}
			}
		}
		events = append(events, map[string]interface{}{"ev": "tokens", "res": res, "res2": res2, "seen": seen, "text": text, "lexerr": lex})
	}
	sameLineToo := false
	appendTest := func(text string, lex bool, kind string) {
		res, _, _ := read(text)
		res2, seen := "", false
		if res == "nil" {
			// the appended definition starts on a line of its own; when the text does not end its last line, also right
			// behind it on that line
			apps := []string{appended}
			if sameLineToo && !strings.HasSuffix(text, "\n") {
				apps = append(apps, " "+strings.TrimPrefix(appended, "\n"))
			}
			seen = true
			for _, app := range apps {
				r2, _, f2 := read(text + app)
				if res2 == "" || r2 != "nil" {
					res2 = r2
				}
				found := false
				for _, s := range f2.Structs {
					if s.Name == "Zq9" {
						found = true
					}
				}
				if r2 == "nil" && !found {
					seen = false
					res2 = "nil"
					break
				}
			}
		}
		events = append(events, map[string]interface{}{"ev": "tokens", "res": res, "res2": res2, "seen": seen, "text": text, "lexerr": lex, "kind": kind})
	}
	// (d) [flags] member expressions over operands and operators, in an unsigned and a signed enum
	for _, ex := range ecases {
		if hung() {
			break
		}
		for _, base := range []string{"", " : int16", " : int64"} {
			appendTest("[flags]\nenum E"+base+" {\n\tA = 1;\n\tB = "+strings.Join(ex, " ")+";\n}\n", false, "expr")
		}
	}
	// (d') character strings without separators, alone and at the places where the grammar expects something else
	sort.Slice(ccases, func(i, j int) bool { return strings.Join(ccases[i], "") < strings.Join(ccases[j], "") })
	for _, cs := range ccases {
		if hung() {
			break
		}
		var b strings.Builder
		for _, ch := range cs {
			if ch == "@BYTE255" {
				b.WriteByte(0xFF)
			} else {
				b.WriteString(ch)
			}
		}
		s := b.String()
		for _, text := range []string{s, "struct A {\n\tint32 a;\n}\n" + s, "struct A {\n\tint32 a;\n\t" + s + "\n}\n", "enum E {\n\tA = " + s + ";\n}\n",
			"const int32 c = " + s + ";\n", "/* c */" + s, "message M {\n\t1 -> int32 a;\n\t" + s + " -> int32 b;\n}\n", "[opcode(" + s + ")]\nstruct A {\n\tint32 a;\n}\n"} {
			appendTest(text, true, "chars")
		}
	}
	// (d'') the inside of string literals, wherever the grammar has one
	sort.Slice(qcases, func(i, j int) bool { return strings.Join(qcases[i], "") < strings.Join(qcases[j], "") })
	for _, cs := range qcases {
		if hung() {
			break
		}
		var b strings.Builder
		for _, ch := range cs {
			if ch == "@BYTE255" {
				b.WriteByte(0xFF)
			} else {
				b.WriteString(ch)
			}
		}
		q := "\"" + b.String() + "\""
		for _, text := range []string{"[opcode(" + q + ")]\nstruct A {\n\tint32 a;\n}\n", "const string c = " + q + ";\n", "const guid g = " + q + ";\n", "import " + q + "\n",
			"struct A {\n\t[deprecated(" + q + ")]\n\tint32 a;\n}\n", "enum E {\n\t[deprecated(" + q + ")]\n\tA = 1;\n}\n"} {
			appendTest(text, true, "quoted")
		}
	}
	// (e) every token-prefix of valid schemas (a definition cut short must not swallow what follows)
	nprefix := 0
	for ci, pc := range pcases {
		if hung() {
			break
		}
		if pc.Part != "seq" && (ci+c.Seed)%5 != 0 {
			continue
		}
		for k := 1; k < len(pc.Tokens); k++ {
			t := pc.Tokens[k-1]
			if t == "~" || t == "^" || t == "\n" || t == "#" || t == "%" || t == "<ro>" {
				continue
			}
			nprefix++
			appendTest(ast.Render(pc.Tokens[:k], ast.Layouts[0]), false, "prefix")
			// ... and with nothing behind the last token (no final newline), bodies on several lines
			sameLineToo = !strings.HasPrefix(t, "//") // (what follows a line comment on its line is part of the comment)
			appendTest(ast.Render(pc.Tokens[:k], ast.Layouts[6]), false, "prefix")
			sameLineToo = false
		}
	}
	boom := errors.New("boom: injected read failure")
	nfault := 0
	for ci, pc := range pcases {
		if hung() {
			break
		}
		if pc.Part != "seq" && (ci+c.Seed)%6 != 0 {
			continue
		}
		text := ast.Render(pc.Tokens, ast.Layouts[0])
		for _, kind := range []string{"boom", "unexpected"} {
			e := boom
			if kind == "unexpected" {
				e = io.ErrUnexpectedEOF
			}
			for si, style := range []string{"after", "with", "byte"} {
				for k := 0; k < len(text); k++ {
					if si > 0 && (k+si+ci)%4 != 0 {
						continue
					}
					fr := &failingReader{data: []byte(text), k: k, err: e, style: style}
					if hung() {
						break
					}
					res, _ := guarded(5*time.Second, func() error { _, _, err := bebop.ReadFile(fr); return err })
					if res == "timeout" {
						timeouts++
					}
					nfault++
					events = append(events, map[string]interface{}{"ev": "pfault", "k": k, "kind": kind, "style": style, "res": res, "text": text, "lexerr": false})
				}
			}
		}
	}
	if hung() {
		// ReadFile calls that never return keep spinning (and allocating) in this process: judge only them, at once, and leave
		var only []map[string]interface{}
		for _, e := range events {
			if e["res"] == "timeout" || e["res2"] == "timeout" {
				only = append(only, e)
			}
		}
		events = only
		fmt.Println("ReadFile did not return on some inputs: the run is cut short and only those observations are judged")
	}
	// judge
	devs := c.OpenDevs("C10")
	dummy := []*parseCase{{Part: "x", Ci: 1}}
	vs, total, st, tr, err := judgeParseModule(c, "Trace_C10", devs, dummy, events)
	if err != nil {
		return 2, infra("%v", err)
	}
	reportParseVerdicts(c, vs, repeatCase(dummy[0], 1), events, "c10")
	samples := []interface{}{events[0], events[len(events)/2], events[len(events)-1]}
	cov := Coverage{"states": plr.Distinct + gtr.Distinct + gpr.Distinct + st, "transitions": plr.Generated + gtr.Generated + gpr.Generated + tr,
		"traces_validated_against_impl": total["ok"] + total["known"], "events_total": len(events), "evaluations": len(events),
		"distinct_nontrivial": len(icases) + len(tcases), "samples": samples,
		"rule":             fmt.Sprintf("(a) EVERY item sequence up to length %d over {opcode, flags, readonly, line/block comment, blank line, import, 5 definition kinds, stray byte, unterminated comment, unterminated string} with the verdict of ParserLoop.tla (model-checked: NoLeak, AttachExactlyOnce, NoSilentDrop, Terminates); (b'') EVERY string literal of up to 4 characters (and 1/8 of those of 5) over {a, quote, backslash, space, newline, x, 1, -, byte 255} as opcode, string const, guid const, import path and deprecation message; (b') EVERY string of up to 3 characters (4 in thorough) and a seed-rotating 1/8 (1/40) of the next length over 22 characters (letters, digits, x, e, every byte that starts a multi-byte token, quote, backslash, each white space, ';', '[', '_', byte 255), written without separators, alone and in 7 grammatical positions (after a definition, inside a struct body, as enum value, as const value, directly after a block comment, as message index, as opcode); (b) EVERY string of up to 3 lexemes (4 in thorough, sampled 1/23 by seed) over a 51-lexeme alphabet with every token kind and the lexical-error lexemes, judged by the property's append test; (c) valid schemas x every reader failure offset x {custom error, ErrUnexpectedEOF} x 3 reader styles; (d) EVERY [flags] member expression of up to 4 lexemes over {1, -1, 64, 0x10, A, <<, >>, |, &, (, )} in an unsigned and two signed enums; (e) EVERY token-prefix of the valid schemas of the C11 universe, judged by the append test", maxLen),
		"flag_expressions": len(ecases) * 3, "token_prefixes_of_valid_schemas": nprefix,
		"item_sequences": len(icases), "item_sequences_skipped_comment_reclosed": skippedOpen, "token_strings": len(tcases), "reader_fault_runs": nfault, "timeouts": timeouts,
		"parserloop_states": plr.Distinct, "open_deviations": devs, "exhaustive": false, "item_sequences_exhaustive_up_to": maxLen, "token_strings_exhaustive_up_to": 3}
	return c.Finish("model_checking", cov, []string{"ParserLoop.tla is the reading of how attributes bind to definitions; sequences whose meaning the language leaves open (two opcodes in a row, a dangling attribute, an attribute before import) are 'unspec' and only judged for termination"}), nil
}

func repeatCase(pc *parseCase, n int) []*parseCase { return []*parseCase{pc} }

func init() { Registry["C10"] = runC10 }
