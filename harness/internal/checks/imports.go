package checks

import (
	"bytes"
	"crypto/sha256"
	"encoding/hex"
	"encoding/json"
	"fmt"
	"go/parser"
	"go/printer"
	"go/token"
	"os"
	"path/filepath"
	"regexp"
	"sort"
	"strings"
	"sync"
	"time"

	"github.com/200sc/bebop"

	"verif/harness/internal/genrun"
	"verif/harness/internal/tlc"
)

type importCase struct {
	N     int    `json:"n"`
	G     int    `json:"g"`
	Mode  string `json:"mode"`
	Files []struct {
		Pkg     string `json:"pkg"`
		Dir     string `json:"dir"`
		Imports []int  `json:"imports"`
	} `json:"files"`
	Imported     []int `json:"imported"`
	PkgCyclic    bool  `json:"pkgcyclic"`
	ImportCyclic bool  `json:"importcyclic"`
	MissingPkg   bool  `json:"missingpkg"`
	PathBroken   bool  `json:"pathbroken"`
	Inline       []int `json:"inline"`
	DfsSteps     int   `json:"dfssteps"`
}

func relImport(fromDir, toDir string, j int) string {
	name := fmt.Sprintf("f%d.bop", j)
	switch {
	case fromDir == toDir:
		return "./" + name
	case fromDir == "":
		return "./" + toDir + "/" + name
	case toDir == "":
		return "../" + name
	}
	return "../" + toDir + "/" + name
}

// fileBody is the definitions of file i (without its import lines)
// bareFiles: files written as "umbrella" files - import lines only, no definitions (a variant of the combined-mode cases)
var bareFiles map[int]bool

func fileBody(ic *importCase, i int) string {
	f := ic.Files[i-1]
	if bareFiles[i] {
		return ""
	}
	var b strings.Builder
	if f.Pkg != "" {
		fmt.Fprintf(&b, "const string go_package = \"example.com/x/%s\";\n", f.Pkg)
	}
	// the files use different primitive types, so that what the output must import from Go depends on which files are reached
	extra := []string{"", "\tdate d;\n", "\tstring s;\n\tguid g;\n", "\tmap[string, date[]] m;\n"}[(i-1)%4]
	fmt.Fprintf(&b, "struct T%d {\n\tint32 x;\n%s}\n", i, extra)
	fmt.Fprintf(&b, "message U%d {\n\t1 -> int32 z;\n", i)
	for k, j := range f.Imports {
		if bareFiles[j] {
			continue // an umbrella file defines nothing to refer to
		}
		fmt.Fprintf(&b, "\t%d -> T%d a%d;\n", k+2, j, j)
	}
	b.WriteString("}\n")
	return b.String()
}

func fileText(ic *importCase, i int) string {
	f := ic.Files[i-1]
	var b strings.Builder
	for _, j := range f.Imports {
		fmt.Fprintf(&b, "import \"%s\"\n", relImport(f.Dir, ic.Files[j-1].Dir, j))
	}
	b.WriteString(fileBody(ic, i))
	return b.String()
}

var typeRe = regexp.MustCompile(`(?m)^type (\w+) `)

func definedTypes(src []byte) []string {
	out := []string{}
	for _, m := range typeRe.FindAllSubmatch(src, -1) {
		out = append(out, string(m[1]))
	}
	sort.Strings(out)
	return out
}

func generateRoot(path string, mode string, timeout time.Duration) (res, msg string, types []string) {
	res, msg, types, _ = generateRootSrc(path, mode, timeout)
	return
}

// codeOf is the generated file's declarations without comments, sorted: two outputs with the same codeOf are the same program
func codeOf(src []byte) string {
	fset := token.NewFileSet()
	f, err := parser.ParseFile(fset, "s.go", src, 0)
	if err != nil {
		return "unparsable: " + err.Error()
	}
	var decls []string
	for _, d := range f.Decls {
		var b bytes.Buffer
		_ = printer.Fprint(&b, fset, d)
		decls = append(decls, b.String())
	}
	sort.Strings(decls)
	return strings.Join(decls, "\n")
}

func generateRootSrc(path string, mode string, timeout time.Duration) (res, msg string, types []string, src []byte) {
	var out bytes.Buffer
	res, msg = guarded(timeout, func() error {
		fh, err := os.Open(path)
		if err != nil {
			return fmt.Errorf("harness: %v", err)
		}
		defer fh.Close()
		f, _, err := bebop.ReadFile(fh)
		if err != nil {
			return err
		}
		st := bebop.GenerateSettings{PackageName: "gen"}
		if mode == "combined" {
			st.ImportGenerationMode = bebop.ImportGenerationModeCombined
		}
		return f.Generate(&out, st)
	})
	if res == "nil" {
		types = definedTypes(out.Bytes())
		src = out.Bytes()
	} else {
		types = []string{}
	}
	return
}

func runC18(c *Ctx) (int, error) {
	specDir := filepath.Join(Root, "spec")
	var cases []*importCase
	var mu sync.Mutex
	g := &tlc.Run{SpecDir: specDir, Scratch: filepath.Join(c.Work, "gen"), Module: "Imports", Workers: 16, Timeout: 25 * time.Minute,
		Cfg: fmt.Sprintf("CONSTANTS\n  Tier = %q\n  Seed = %d\nINIT Init\nNEXT Next\nINVARIANTS WorklistExact DfsExact DfsLinear Export\nCHECK_DEADLOCK FALSE\n", c.Tier, c.Seed),
		OnLine: func(tag, js string) {
			if tag == "GCASE" {
				ic := &importCase{}
				if json.Unmarshal([]byte(js), ic) == nil {
					mu.Lock()
					cases = append(cases, ic)
					mu.Unlock()
				}
			}
		}}
	gr, err := g.Exec()
	if err != nil {
		return 2, infra("Imports: %v", err)
	}
	if gr.Violated != "" {
		return 2, infra("Imports.tla: %s fails (spec bug)\n%s", gr.Violated, strings.Join(gr.Tail, "\n"))
	}
	if len(cases) == 0 {
		return 2, infra("Imports.tla exported no cases")
	}
	sort.Slice(cases, func(i, j int) bool {
		a, b := cases[i], cases[j]
		if a.N != b.N {
			return a.N < b.N
		}
		if a.G != b.G {
			return a.G < b.G
		}
		ka, _ := json.Marshal(a.Files)
		kb, _ := json.Marshal(b.Files)
		if string(ka) != string(kb) {
			return string(ka) < string(kb)
		}
		return a.Mode < b.Mode
	})
	base := filepath.Join(c.Work, "fs")
	toBuild := map[string][]byte{}
	var events []map[string]interface{}
	nontriv := 0
	for ci, ic := range cases {
		dir := filepath.Join(base, fmt.Sprintf("c%d", ci))
		_ = os.MkdirAll(filepath.Join(dir, "sub"), 0o755)
		for i := 1; i <= ic.N; i++ {
			p := filepath.Join(dir, ic.Files[i-1].Dir, fmt.Sprintf("f%d.bop", i))
			if err := os.WriteFile(p, []byte(fileText(ic, i)), 0o644); err != nil {
				return 2, infra("%v", err)
			}
		}
		if len(ic.Imported) > 0 {
			nontriv++
		}
		res, msg, types, src := generateRootSrc(filepath.Join(dir, "f1.bop"), ic.Mode, 20*time.Second)
		e := map[string]interface{}{"samecode": true, "compiles": "", "mode": ic.Mode, "res": res, "msg": msg, "iscycle": strings.Contains(msg, "import cycle"), "types": types, "openfail": res == "err" && strings.Contains(msg, "failed to open imported file"),
			"pkgcyclic": ic.PkgCyclic, "importcyclic": ic.ImportCyclic, "missingpkg": ic.MissingPkg, "pathbroken": ic.PathBroken,
			"inlineres": "", "inlinetypes": []string{}, "ladder": false, "n": ic.N, "g": ic.G, "files": ic.Files}
		if ic.Mode == "combined" && !ic.ImportCyclic {
			// the inlined schema: the root's definitions followed by every imported file's once, in import order
			var b strings.Builder
			b.WriteString(fileBody(ic, 1))
			for _, j := range ic.Inline {
				b.WriteString(fileBody(ic, j))
			}
			ip := filepath.Join(dir, "inline.bop")
			_ = os.WriteFile(ip, []byte(b.String()), 0o644)
			ires, _, itypes, isrc := generateRootSrc(ip, "combined", 20*time.Second)
			e["inlineres"], e["inlinetypes"] = ires, itypes
			if res == "nil" && ires == "nil" {
				e["samecode"] = codeOf(src) == codeOf(isrc)
				h := sha256.Sum256(src)
				key := "h" + hex.EncodeToString(h[:8])
				toBuild[key] = src
				e["buildkey"] = key
			}
		}
		events = append(events, e)
		// the same graph with every imported file that itself imports something written as an umbrella file (import lines
		// only): what is reachable only through it still belongs to the inlined schema
		if ic.Mode == "combined" && !ic.ImportCyclic && !ic.PathBroken && res == "nil" {
			bare := map[int]bool{}
			for i := 2; i <= ic.N; i++ {
				if len(ic.Files[i-1].Imports) > 0 {
					bare[i] = true
				}
			}
			if len(bare) > 0 {
				bareFiles = bare
				for i := 1; i <= ic.N; i++ {
					_ = os.WriteFile(filepath.Join(dir, ic.Files[i-1].Dir, fmt.Sprintf("f%d.bop", i)), []byte(fileText(ic, i)), 0o644)
				}
				bres, bmsg, btypes, bsrc := generateRootSrc(filepath.Join(dir, "f1.bop"), ic.Mode, 20*time.Second)
				be := map[string]interface{}{"samecode": true, "compiles": "", "mode": ic.Mode, "res": bres, "msg": bmsg, "iscycle": false, "types": btypes, "openfail": false,
					"pkgcyclic": ic.PkgCyclic, "importcyclic": false, "missingpkg": false, "pathbroken": false,
					"inlineres": "", "inlinetypes": []string{}, "ladder": false, "n": ic.N, "g": ic.G, "files": ic.Files, "umbrella": true}
				var b strings.Builder
				b.WriteString(fileBody(ic, 1))
				for _, j := range ic.Inline {
					b.WriteString(fileBody(ic, j))
				}
				ip := filepath.Join(dir, "inline_umbrella.bop")
				_ = os.WriteFile(ip, []byte(b.String()), 0o644)
				ires, _, itypes, isrc := generateRootSrc(ip, "combined", 20*time.Second)
				be["inlineres"], be["inlinetypes"] = ires, itypes
				if bres == "nil" && ires == "nil" {
					be["samecode"] = codeOf(bsrc) == codeOf(isrc)
					h := sha256.Sum256(bsrc)
					key := "h" + hex.EncodeToString(h[:8])
					toBuild[key] = bsrc
					be["buildkey"] = key
				}
				events = append(events, be)
				bareFiles = nil
			}
		}
		_ = os.RemoveAll(dir)
	}
	// every distinct combined output is compiled
	diags, err := genrun.BuildSources(filepath.Join(c.Work, "cbuild"), toBuild)
	if err != nil {
		return 2, infra("%v", err)
	}
	for _, e := range events {
		if k, ok := e["buildkey"].(string); ok {
			e["compiles"] = diags[k]
			delete(e, "buildkey")
		}
	}
	// termination in practice: ladders of layered diamonds (2 packages per layer, every package of a layer imports both of the next)
	layers := []int{8, 14}
	if c.Tier == "thorough" {
		layers = []int{8, 14, 20, 30, 45}
	}
	for _, L := range layers {
		dir := filepath.Join(base, fmt.Sprintf("ladder%d", L))
		_ = os.MkdirAll(dir, 0o755)
		name := func(l, k int) string { return fmt.Sprintf("l%dk%d", l, k) }
		for l := 0; l <= L; l++ {
			for k := 0; k < 2; k++ {
				if l == 0 && k == 1 {
					continue
				}
				var b strings.Builder
				fmt.Fprintf(&b, "const string go_package = \"example.com/x/%s\";\n", name(l, k))
				if l < L {
					fmt.Fprintf(&b, "import \"./%s.bop\"\nimport \"./%s.bop\"\n", name(l+1, 0), name(l+1, 1))
				}
				fmt.Fprintf(&b, "struct T%s {\n\tint32 x;\n}\n", name(l, k))
				_ = os.WriteFile(filepath.Join(dir, name(l, k)+".bop"), []byte(b.String()), 0o644)
			}
		}
		t0 := time.Now()
		res, msg, types := generateRoot(filepath.Join(dir, name(0, 0)+".bop"), "separate", 60*time.Second)
		events = append(events, map[string]interface{}{"mode": "separate", "res": res, "msg": msg, "iscycle": strings.Contains(msg, "import cycle"), "types": types, "openfail": false,
			"pkgcyclic": false, "importcyclic": false, "missingpkg": false, "pathbroken": false, "samecode": true, "compiles": "", "inlineres": "", "inlinetypes": []string{},
			"ladder": true, "layers": L, "ms": time.Since(t0).Milliseconds(), "n": 2*L + 1, "g": 0, "files": []int{}})
		_ = os.RemoveAll(dir)
	}
	devs := c.OpenDevs("C18")
	dummy := []*parseCase{{Part: "x", Ci: 1}}
	vs, total, st, tr, err := judgeParseModule(c, "Trace_Imports", devs, dummy, events)
	if err != nil {
		return 2, infra("%v", err)
	}
	reportParseVerdicts(c, vs, dummy, events, "imports")
	cov := Coverage{"states": gr.Distinct + st, "transitions": gr.Generated + tr, "traces_validated_against_impl": total["ok"] + total["known"],
		"events_total": len(events), "evaluations": len(events), "distinct_nontrivial": nontriv,
		"samples":       []interface{}{events[len(events)/3], events[len(events)/2], events[len(events)-1]},
		"rule":          "graphs = EVERY directed import graph on 1-3 files (4 files with <= 5 edges, seed-sampled third, in thorough) incl. self-imports, diamonds and the root re-imported x 5 go_package assignments (distinct, imported files share one, all share one, last file has none, none) x 3 directory placements x {separate, combined}; files are materialised on disk and generated with the real ReadFile+Generate; plus layered-diamond ladders for termination in practice; Imports.tla model-checks the worklist and the DFS as coded on the same graphs (WorklistExact, DfsExact, DfsLinear); non-trivial = graphs in which the root imports something",
		"ladder_layers": layers, "open_deviations": devs, "exhaustive": false, "graphs_exhaustive_up_to_files": 3}
	return c.Finish("model_checking", cov, []string{"Imports.tla is the reading of 'resolves relative to the importing file', 'package graph reachable from the file' and 'inlining every transitively imported file once'", "type sets are read off the generated source with a regular expression over 'type X' declarations"}), nil
}

func init() { Registry["C18"] = runC18 }
