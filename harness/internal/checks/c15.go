package checks

import (
	"bytes"
	"encoding/json"
	"fmt"
	"os"
	"os/exec"
	"path/filepath"
	"strings"
	"sync"
	"time"
	"verif/harness/internal/genrun"

	"github.com/200sc/bebop"

	"verif/harness/internal/ast"
	"verif/harness/internal/tlc"
)

type litExpect struct {
	Go   string `json:"go"`
	Kind string `json:"kind"`
	T    string `json:"t"`
	Bits []int  `json:"bits"`
	Text string `json:"text"`
}

type litCase struct {
	Tokens []string        `json:"tokens"`
	Expect []litExpect     `json:"expect"`
	File   json.RawMessage `json:"file"`
}

func genLiteralsCase(c *Ctx) (*litCase, *tlc.Result, error) {
	var lc *litCase
	var mu sync.Mutex
	g := &tlc.Run{SpecDir: filepath.Join(Root, "spec"), Scratch: filepath.Join(c.Work, "genlit"), Module: "Gen_Literals", Workers: 2, Timeout: 10 * time.Minute,
		Cfg: fmt.Sprintf("CONSTANTS\n  Tier = %q\n  Seed = %d\nINIT Init\nNEXT Next\nINVARIANTS LiteralsFit ArithSane Export\nCHECK_DEADLOCK FALSE\n", c.Tier, c.Seed),
		OnLine: func(tag, js string) {
			if tag == "LCASE" {
				x := &litCase{}
				if json.Unmarshal([]byte(js), x) == nil {
					mu.Lock()
					lc = x
					mu.Unlock()
				}
			}
		}}
	gr, err := g.Exec()
	if err != nil {
		return nil, nil, infra("Gen_Literals: %v", err)
	}
	if gr.Violated != "" || lc == nil {
		return nil, nil, infra("Gen_Literals: %s / no case exported\n%s", gr.Violated, strings.Join(gr.Tail, "\n"))
	}
	return lc, gr, nil
}

func goType(t string) string {
	if t == "guid" {
		return "string"
	}
	return t
}

func runC15(c *Ctx) (int, error) {
	lc, gr, err := genLiteralsCase(c)
	if err != nil {
		return 2, err
	}
	text := ast.Render(lc.Tokens, ast.Layouts[0])
	var events []map[string]interface{}
	fail := func(diag string) {
		if len(diag) > 600 {
			diag = diag[:600]
		}
		events = append(events, map[string]interface{}{"ev": "build", "ok": false, "diag": diag, "text": text})
	}
	mod := filepath.Join(c.Work, "litmod")
	_ = os.MkdirAll(filepath.Join(mod, "lit"), 0o755)
	_ = os.MkdirAll(filepath.Join(mod, "probe"), 0o755)
	var src bytes.Buffer
	res, msg := guarded(20*time.Second, func() error {
		f, _, err := bebop.ReadFile(strings.NewReader(text))
		if err != nil {
			return err
		}
		return f.Generate(&src, bebop.GenerateSettings{PackageName: "lit"})
	})
	built := false
	var obs map[string]map[string]interface{}
	if res != "nil" {
		fail("ReadFile/Generate rejects the schema: " + res + " " + msg)
	} else {
		_ = os.WriteFile(filepath.Join(mod, "go.mod"), []byte("module litmod\n\ngo 1.21\n\nrequire github.com/200sc/bebop v0.0.0\n\nreplace github.com/200sc/bebop => "+genrun.RepoDir()+"\n"), 0o644)
		_ = os.WriteFile(filepath.Join(mod, "lit", "lit.go"), src.Bytes(), 0o644)
		_ = os.WriteFile(filepath.Join(mod, "lit", "lit.bop"), []byte(text), 0o644)
		var m strings.Builder
		m.WriteString("package main\n\nimport (\n\t\"encoding/json\"\n\t\"fmt\"\n\t\"math\"\n\t\"os\"\n\t\"reflect\"\n\n\t\"litmod/lit\"\n)\n\n")
		m.WriteString("func le(n uint64, w int) []int {\n\tout := make([]int, w)\n\tfor i := range out {\n\t\tout[i] = int(n % 256)\n\t\tn /= 256\n\t}\n\treturn out\n}\n")
		m.WriteString("func bs(s string) []int {\n\tout := make([]int, len(s))\n\tfor i := range out {\n\t\tout[i] = int(s[i])\n\t}\n\treturn out\n}\n")
		m.WriteString("var _ = math.Pi\nvar _ = reflect.TypeOf\n\n// constant-ness: these declarations compile only if the operands are Go constants\nconst (\n")
		widths := map[string]int{"byte": 1, "uint8": 1, "uint16": 2, "int16": 2, "uint32": 4, "int32": 4, "uint64": 8, "int64": 8}
		for i, e := range lc.Expect {
			if e.Kind == "float" && len(e.Bits) > 0 && (e.Bits[len(e.Bits)-1] == 127 || e.Bits[len(e.Bits)-1] == 255) && e.Bits[len(e.Bits)-2] >= 128 {
				continue // inf: a variable by design
			}
			if e.Kind == "float" && len(e.Bits) == 0 {
				continue // nan
			}
			fmt.Fprintf(&m, "\tk%d = lit.%s\n", i, e.Go)
		}
		m.WriteString(")\n\nfunc main() {\n\tout := map[string]map[string]interface{}{}\n")
		for _, e := range lc.Expect {
			switch e.Kind {
			case "int":
				fmt.Fprintf(&m, "\t{\n\t\tv := %s(lit.%s)\n\t\tout[%q] = map[string]interface{}{\"bits\": le(uint64(v), %d)}\n\t}\n", e.T, e.Go, e.Go, widths[e.T])
			case "opcode":
				fmt.Fprintf(&m, "\tout[%q] = map[string]interface{}{\"bits\": le(uint64(uint32(lit.%s)), 4)}\n", e.Go, e.Go)
			case "enum":
				fmt.Fprintf(&m, "\t{\n\t\tv := lit.%s\n\t\tout[%q] = map[string]interface{}{\"bits\": le(uint64(v), %d), \"rkind\": reflect.TypeOf(v).Kind().String(), \"tname\": reflect.TypeOf(v).Name()}\n\t}\n", e.Go, e.Go, widths[e.T])
			case "float":
				if e.T == "float32" {
					fmt.Fprintf(&m, "\t{\n\t\tv := float32(lit.%s)\n\t\tout[%q] = map[string]interface{}{\"bits\": le(uint64(math.Float32bits(v)), 4), \"isnan\": v != v}\n\t}\n", e.Go, e.Go)
				} else {
					fmt.Fprintf(&m, "\t{\n\t\tv := float64(lit.%s)\n\t\tout[%q] = map[string]interface{}{\"bits\": le(math.Float64bits(v), 8), \"isnan\": v != v}\n\t}\n", e.Go, e.Go)
				}
			case "string":
				fmt.Fprintf(&m, "\tout[%q] = map[string]interface{}{\"bits\": bs(lit.%s)}\n", e.Go, e.Go)
			case "guidtext":
				fmt.Fprintf(&m, "\tout[%q] = map[string]interface{}{\"str\": string(lit.%s), \"bits\": []int{}}\n", e.Go, e.Go)
			case "bool":
				fmt.Fprintf(&m, "\tif lit.%s {\n\t\tout[%q] = map[string]interface{}{\"bits\": []int{1}}\n\t} else {\n\t\tout[%q] = map[string]interface{}{\"bits\": []int{0}}\n\t}\n", e.Go, e.Go, e.Go)
			}
		}
		m.WriteString("\tb, _ := json.Marshal(out)\n\tfmt.Println(string(b))\n\t_ = os.Stdout\n}\n")
		_ = os.WriteFile(filepath.Join(mod, "probe", "main.go"), []byte(m.String()), 0o644)
		cmd := exec.Command("go", "run", "./probe")
		cmd.Dir = mod
		cmd.Env = append(os.Environ(), "GOFLAGS=-mod=mod", "GOPROXY=off", "GOSUMDB=off", "GOTOOLCHAIN=local")
		var stdout, stderr bytes.Buffer
		cmd.Stdout, cmd.Stderr = &stdout, &stderr
		if err := cmd.Run(); err != nil {
			fail(stderr.String())
		} else if err := json.Unmarshal(stdout.Bytes(), &obs); err != nil {
			fail("probe output unreadable: " + err.Error())
		} else {
			built = true
			events = append(events, map[string]interface{}{"ev": "build", "ok": true, "diag": "", "text": text})
		}
	}
	if built {
		for _, e := range lc.Expect {
			o, found := obs[e.Go]
			ev := map[string]interface{}{"ev": "const", "go": e.Go, "kind": e.Kind, "t": e.T, "want": e.Bits, "text": e.Text, "found": found,
				"bits": []int{}, "isnan": false, "str": "", "rkind": "", "tname": "", "mustconst": true, "isconst": true}
			if found {
				for k, v := range o {
					ev[k] = v
				}
			}
			events = append(events, ev)
		}
	}
	dummy := []*parseCase{{Part: "x", Ci: 1}}
	vs, total, st, tr, err := judgeParseModule(c, "Trace_C15", nil, dummy, events)
	if err != nil {
		return 2, infra("%v", err)
	}
	reportParseVerdicts(c, vs, dummy, events, "c15")
	byKind := map[string]int{}
	for _, e := range lc.Expect {
		byKind[e.Kind]++
	}
	samples := []interface{}{}
	for _, i := range []int{1, len(events) / 2, len(events) - 1} {
		if i < len(events) {
			samples = append(samples, events[i])
		}
	}
	cov := Coverage{"states": gr.Distinct + st, "transitions": gr.Generated + tr, "traces_validated_against_impl": total["ok"],
		"events_total": len(events), "evaluations": len(events), "distinct_nontrivial": len(lc.Expect), "samples": samples,
		"rule":              "constants = integer consts of all 8 integer types in decimal/hex/negative/full-range forms, float consts incl. inf/-inf/nan and integer literals, string consts with escapes, bools, a guid; enums over all 8 bases with 0/1/min/max/hex members; [flags] enums over all 8 bases with 12 expression trees each (|, &, <<, >> over literals and earlier members, sign-bit and width-boundary shifts); opcodes as decimal, hex and 4-character strings on struct/message/union; every value computed by Literals.tla on byte sequences; the generated package is compiled and run, constant-ness is checked by using each in a Go const declaration",
		"constants_by_kind": byKind, "exhaustive": false}
	return c.Finish("model_checking", cov, []string{"Literals.tla is the reading of integer literals, two's-complement width-typed flag arithmetic (logical shift for unsigned, arithmetic for signed, as Go and C# both do) and opcode byte order; float bit patterns come from a small trusted table in Gen_Literals.tla"}), nil
}

func init() { Registry["C15"] = runC15 }
