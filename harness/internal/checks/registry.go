package checks

// Registry maps a property id to its decision procedure.
var Registry = map[string]func(*Ctx) (int, error){}

var wireTheorems = []string{"SizeIsLen", "LayoutLen", "RoundTrip", "PrefixIsError", "Export"}

var wireAssume = []string{
	"BebopWire.tla is a faithful reading of the published Bebop wire format (trusted base; cross-checked by the repository's own 12-byte message test vector)",
	"the reflection mapper (workerlib/value.go) maps abstract values to Go values and back without using any codec",
	"TLC evaluates the specification correctly",
}

func init() {
	Registry["C01"] = func(c *Ctx) (int, error) {
		return RunWire(c, &WireSpec{GenModule: "Gen_Wire", GenConsts: map[string]string{"OptMode": `"default"`}, GenInvs: wireTheorems,
			Op: "codec", JudgeProp: "C01", DevProps: []string{"C01", "C02", "C12"}, Level: "model_checking",
			Rule:   "cases = TLC-enumerated (shape x context x boundary value); a case is non-trivial if its encoding has more than 2 bytes; every encoder output is decoded by every decoder",
			Assume: wireAssume, Nontrivial: func(s *wireSchema, cs *wireCase) bool { return len(cs.Enc) > 2 }})
	}
	Registry["C02"] = func(c *Ctx) (int, error) {
		return RunWire(c, &WireSpec{GenModule: "Gen_Wire", GenConsts: map[string]string{"OptMode": `"default"`}, GenInvs: wireTheorems,
			Op: "codec", JudgeProp: "C02", DevProps: []string{"C02", "C12"}, Level: "model_checking",
			Rule:   "cases = TLC-enumerated (shape x context x boundary value) x {MarshalBebop, MarshalBebopTo into 00/FF/A5-filled buffers with and without slack, EncodeBebop}; non-trivial if the encoding has more than 2 bytes",
			Assume: wireAssume, Nontrivial: func(s *wireSchema, cs *wireCase) bool { return len(cs.Enc) > 2 }})
	}
	Registry["C03"] = func(c *Ctx) (int, error) {
		return RunWire(c, &WireSpec{GenModule: "Gen_Wire", GenConsts: map[string]string{"OptMode": `"default"`}, GenInvs: wireTheorems,
			Op: "codec", JudgeProp: "C03", DevProps: []string{"C03", "C02", "C12"}, Level: "model_checking",
			Rule:   "cases = TLC-enumerated (shape x context x boundary value incl. both orders of two-entry maps); reference bytes come from BebopWire.Enc; non-trivial if the encoding has more than 2 bytes",
			Assume: wireAssume, Nontrivial: func(s *wireSchema, cs *wireCase) bool { return len(cs.Enc) > 2 }})
	}
}
