package checks

import "strings"

// Registry maps a property id to its decision procedure.
var Registry = map[string]func(*Ctx) (int, error){}

var wireTheorems = []string{"SizeIsLen", "LayoutLen", "RoundTrip", "PrefixIsError", "Export"}

var wireAssume = []string{
	"BebopWire.tla is a faithful reading of the published Bebop wire format (trusted base; cross-checked by the repository's own 12-byte message test vector)",
	"the reflection mapper (workerlib/value.go) maps abstract values to Go values and back without using any codec",
	"TLC evaluates the specification correctly",
}

func init() {
	Registry["C01"] = func(c *Ctx) (int, error) {
		return RunWire(c, &WireSpec{GenModule: "Gen_Wire", GenConsts: map[string]string{"OptMode": `"default"`, "ValMode": `"all"`, "Muts": `"none"`}, GenInvs: wireTheorems,
			Op: "codec", JudgeProp: "C01", DevProps: []string{"C01", "C02", "C12"}, Level: "model_checking",
			Rule:   "cases = TLC-enumerated (shape x context x boundary value); a case is non-trivial if its encoding has more than 2 bytes; every encoder output is decoded by every decoder",
			Assume: wireAssume, Nontrivial: func(s *wireSchema, cs *wireCase) bool { return len(cs.Enc) > 2 }})
	}
	Registry["C02"] = func(c *Ctx) (int, error) {
		return RunWire(c, &WireSpec{GenModule: "Gen_Wire", GenConsts: map[string]string{"OptMode": `"default"`, "ValMode": `"all"`, "Muts": `"none"`}, GenInvs: wireTheorems,
			Op: "codec", JudgeProp: "C02", DevProps: []string{"C02", "C12"}, Level: "model_checking",
			Rule:   "cases = TLC-enumerated (shape x context x boundary value) x {MarshalBebop, MarshalBebopTo into 00/FF/A5-filled buffers with and without slack, EncodeBebop}; non-trivial if the encoding has more than 2 bytes",
			Assume: wireAssume, Nontrivial: func(s *wireSchema, cs *wireCase) bool { return len(cs.Enc) > 2 }})
	}
	Registry["C03"] = func(c *Ctx) (int, error) {
		return RunWire(c, &WireSpec{GenModule: "Gen_Wire", GenConsts: map[string]string{"OptMode": `"default"`, "ValMode": `"all"`, "Muts": `"none"`}, GenInvs: wireTheorems,
			Op: "codec", JudgeProp: "C03", DevProps: []string{"C03", "C02", "C12"}, Level: "model_checking",
			Rule:   "cases = TLC-enumerated (shape x context x boundary value incl. both orders of two-entry maps); reference bytes come from BebopWire.Enc; non-trivial if the encoding has more than 2 bytes",
			Assume: wireAssume, Nontrivial: func(s *wireSchema, cs *wireCase) bool { return len(cs.Enc) > 2 }})
	}
}

func init() {
	Registry["C12"] = func(c *Ctx) (int, error) {
		return RunWire(c, &WireSpec{GenModule: "Gen_Wire", GenConsts: map[string]string{"OptMode": `"cover"`, "ValMode": `"first"`, "Muts": `"none"`}, GenInvs: []string{"Export"},
			Op: "generate", JudgeProp: "C12", DevProps: []string{"C12"}, Level: "model_checking",
			Rule:   "programs = TLC-enumerated (field shape x context x generator option set), one package each; every accepted package is compiled alone with go build against /repo's bebop and iohelp; a program is non-trivial if its shape is a container or a user-defined type",
			Assume: []string{"the Go compiler is the oracle for 'compiles' (no specification stands in for it)", "TLC enumerates the program universe; the acceptance predicate and the known-uncompilable shape classes are TLA+ predicates"},
			Nontrivial: func(s *wireSchema, cs *wireCase) bool {
				return strings.Contains(s.Tag, "<") || strings.Contains(s.Tag, ":") || !strings.Contains("bool byte uint8 uint16 int16 uint32 int32 uint64 int64 float32 float64 string guid date", s.Tag)
			}})
	}
}

func init() {
	Registry["C09"] = func(c *Ctx) (int, error) {
		mod := 6
		if c.Tier == "thorough" {
			mod = 3
		}
		evolve := &WireSpec{GenModule: "Gen_Evolve", GenInvs: []string{"IsExtension", "ForwardCompat", "Export"},
			Op: "decref", JudgeProp: "C09", DevProps: []string{"C09"}, Level: "model_checking", ForceOpts: []string{"GenerateUnsafeMethods", "SharedMemoryStrings"},
			Rule:       "MustUnmarshalBebop against UnmarshalBebop on valid encodings written by a peer's schema version (the C04 pairs: new fields, fields the reader has deprecated), generated with GenerateUnsafeMethods",
			Nontrivial: func(s *wireSchema, cs *wireCase) bool { return string(cs.Want) != string(cs.V) }}
		return RunWireParts(c, []*WireSpec{{GenModule: "Gen_Wire", GenConsts: map[string]string{"OptMode": `"cover"`, "ValMode": `"all"`, "Muts": `"none"`}, GenInvs: []string{"Export"},
			Op: "codec", JudgeProp: "C09", DevProps: []string{"C09", "C12"}, Level: "model_checking",
			Rule:   "cases = TLC-enumerated (shape x context x value x option set: pairwise cover of the 2^5 sets in quick, all 32 in thorough), one generated package per (schema, option set); each schema is generated under the empty set, under all five options, and under a seed-rotating quarter (quick) or fifth (thorough) of the other sets; a seed-dependent 1/6 (quick) or 1/3 (thorough) of the values is executed per package, at least one each; non-trivial if the option set is not empty",
			Assume: wireAssume,
			CaseFilter: func(s *wireSchema, cs *wireCase) bool {
				// packages: every schema under the empty set and under a seed-rotating third (quarter) of the other sets
				pm := 4
				if c.Tier == "thorough" {
					pm = 5
				}
				// every schema under no option, under all options, and under a seed-rotating share of the other sets
				if cs.Mask != 0 && cs.Mask != 31 && (cs.Sid+cs.Mask+c.Seed)%pm != 0 {
					return false
				}
				return cs.Vi == 1 || (cs.Sid+cs.Mask*5+cs.Vi+c.Seed)%mod == 0
			},
			Nontrivial: func(s *wireSchema, cs *wireCase) bool { return cs.Mask != 0 }}, evolve})
	}
}

func init() {
	Registry["C06"] = func(c *Ctx) (int, error) {
		// the bounds checks are emitted by templates that differ per option set: cuts also under option sets
		opts := &WireSpec{GenModule: "Gen_Wire", GenConsts: map[string]string{"OptMode": `"cover"`, "ValMode": `"few"`, "Muts": `"none"`}, GenInvs: []string{"Export"},
			Op: "cuts", JudgeProp: "C06", DevProps: []string{"C06", "C07"}, Level: "model_checking",
			Rule: "every cut of the first three values of a seed-rotating third of the schemas, generated under all five options and under a second seed-chosen option set of the pairwise cover",
			CaseFilter: func(s *wireSchema, cs *wireCase) bool {
				if len(cs.Enc) > 200 || (cs.Sid+c.Seed)%3 != 0 {
					return false
				}
				return cs.Mask == 31 || cs.Mask == []int{7, 25, 10, 21, 14, 19, 28, 3}[(cs.Sid/3+c.Seed)%8]
			},
			Nontrivial: func(s *wireSchema, cs *wireCase) bool { return len(cs.Enc) > 2 }}
		return RunWireParts(c, []*WireSpec{{GenModule: "Gen_Wire", GenConsts: map[string]string{"OptMode": `"default"`, "ValMode": `"all"`, "Muts": `"none"`}, GenInvs: wireTheorems,
			Op: "cuts", JudgeProp: "C06", DevProps: []string{"C06", "C07"}, Level: "model_checking",
			Rule:       "cases = TLC-enumerated (shape x context x value); for each, EVERY cut point 0 <= k < len(reference encoding) is fed to UnmarshalBebop and to DecodeBebop (exhaustive per value); PrefixIsError is model-checked on the ideal decoder for the same cuts; a case is non-trivial if its encoding has more than 2 bytes",
			Assume:     append([]string{"'out of proportion' is measured as TotalAlloc delta > 64*len(input)+64KiB; hangs by a 20s watchdog; the worker runs under ulimit -v"}, wireAssume...),
			CaseFilter: func(s *wireSchema, cs *wireCase) bool { return len(cs.Enc) <= 400 },
			Nontrivial: func(s *wireSchema, cs *wireCase) bool { return len(cs.Enc) > 2 }}, opts})
	}
}

func init() {
	Registry["C07"] = func(c *Ctx) (int, error) {
		// three values per schema in both tiers; the thorough tier has the larger schema universe (depth-2 shapes, 150
		// pseudo-random and 240 random records) - with every value its case generation alone exceeded 20 minutes
		vm := `"few"`
		return RunWire(c, &WireSpec{GenModule: "Gen_Wire", GenConsts: map[string]string{"OptMode": `"default"`, "ValMode": vm, "Muts": `"layout"`},
			GenInvs: []string{"SizeIsLen", "LayoutLen", "DecTotal", "Export"},
			Op:      "corrupt", JudgeProp: "C07", DevProps: []string{"C07"}, Level: "model_checking",
			Rule:       "inputs = TLC-generated structure-aware corruptions of reference encodings (every length/count field set to 0, 1, n+1, n-1, 2^20, 2^31, 2^31-1, 2^32-1; every index/terminator/discriminator byte and first byte of every scalar replaced; chunks removed/duplicated at element boundaries; trailing garbage), each fed to UnmarshalBebop and DecodeBebop; DecTotal is model-checked on the ideal decoder for the same inputs; non-trivial = every corrupted input (distinct from the valid encoding)",
			Assume:     append([]string{"'unbounded' is measured as TotalAlloc delta > 64*len(input)+64KiB, a 3 GB address-space limit, and a 20s watchdog per call"}, wireAssume...),
			CaseFilter: func(s *wireSchema, cs *wireCase) bool { return len(cs.Enc) <= 200 },
			Nontrivial: func(s *wireSchema, cs *wireCase) bool { return true }})
	}
}

func init() {
	Registry["C08"] = func(c *Ctx) (int, error) {
		// error propagation is emitted by templates that differ per option set (private make functions, pointer receivers,
		// unsafe readers): faults also under option sets
		opts := &WireSpec{GenModule: "Gen_Wire", GenConsts: map[string]string{"OptMode": `"cover"`, "ValMode": `"few"`, "Muts": `"none"`}, GenInvs: []string{"Export"},
			Op: "faults", Errs: []string{"boom", "eof"}, JudgeProp: "C08", DevProps: []string{"C08"}, Level: "model_checking",
			Rule: "every reader and writer fault position on the first three values of a seed-rotating third of the schemas, generated under all five options and under a second seed-chosen option set of the pairwise cover",
			CaseFilter: func(s *wireSchema, cs *wireCase) bool {
				if len(cs.Enc) > 120 || (cs.Sid+c.Seed)%3 != 0 {
					return false
				}
				return cs.Mask == 31 || cs.Mask == []int{7, 25, 10, 21, 14, 19, 28, 3}[(cs.Sid/3+c.Seed)%8]
			},
			Nontrivial: func(s *wireSchema, cs *wireCase) bool { return len(cs.Enc) > 2 }}
		evolve := &WireSpec{GenModule: "Gen_Evolve", GenInvs: []string{"IsExtension", "ForwardCompat", "Export"},
			Op: "rfault", Errs: []string{"boom", "unexpected"}, JudgeProp: "C08", DevProps: []string{"C08"}, Level: "model_checking",
			Rule:       "reader failing at every byte offset while the OLDER schema version decodes a NEWER version's bytes (the path that skips unknown message fields), over the schema pairs of C04",
			Nontrivial: func(s *wireSchema, cs *wireCase) bool { return len(cs.Enc) > 2 }}
		return RunWireParts(c, []*WireSpec{{GenModule: "Gen_Wire", GenConsts: map[string]string{"OptMode": `"default"`, "ValMode": `"all"`, "Muts": `"none"`}, GenInvs: wireTheorems,
			Op: "faults", Errs: []string{"boom", "eof", "unexpected"}, JudgeProp: "C08", DevProps: []string{"C08"}, Level: "model_checking",
			Rule:       "cases = TLC-enumerated (shape x context x value); reader: for EVERY byte offset k < len the reader fails after k bytes with {custom error, io.EOF, io.ErrUnexpectedEOF} in the styles error-after-last-byte / error-with-last-bytes / one-byte-reads; writer: for EVERY call index k below the number of Write calls of a fault-free run the k-th Write fails (writing nothing / half); non-trivial if the encoding has more than 2 bytes",
			Assume:     wireAssume,
			CaseFilter: func(s *wireSchema, cs *wireCase) bool { return len(cs.Enc) <= 400 },
			Nontrivial: func(s *wireSchema, cs *wireCase) bool { return len(cs.Enc) > 2 }}, evolve, opts})
	}
}

func init() {
	Registry["C05"] = func(c *Ctx) (int, error) {
		return RunWire(c, &WireSpec{GenModule: "Gen_Wire", GenConsts: map[string]string{"OptMode": `"default"`, "ValMode": `"all"`, "Muts": `"stream"`}, GenInvs: wireTheorems,
			Op: "stream", JudgeProp: "C05", DevProps: []string{"C05"}, Level: "model_checking",
			Rule:   "histories = TLC-enumerated sequences of 3 records per (shape x context x value) written back to back (reference bytes, and the real EncodeBebop); schedules = unfragmented + every cyclic cap pattern of length 1-2 (quick) / 1-3 (thorough) over {1,2,3,5} bytes, each greedy (reader holds the whole stream + trailing bytes: over-consumption shows) and starved (reader delivers nothing beyond the current record: asking beyond it is flagged); exhaustive Deliver schedules are model-checked in StreamCodec.tla; non-trivial if the first record has more than 2 bytes",
			Assume: append([]string{"a Read issued when the current record is exhausted is what would block on a live connection"}, wireAssume...),
			CaseFilter: func(s *wireSchema, cs *wireCase) bool {
				return len(cs.Enc) <= 200 && (c.Tier == "thorough" || (cs.Vi+cs.Sid+c.Seed)%2 == 0)
			},
			Nontrivial: func(s *wireSchema, cs *wireCase) bool { return len(cs.Enc) > 2 }})
	}
}

func init() {
	Registry["C04"] = func(c *Ctx) (int, error) {
		return RunWire(c, &WireSpec{GenModule: "Gen_Evolve", GenInvs: []string{"IsExtension", "ForwardCompat", "Export"},
			Op: "decref", JudgeProp: "C04", DevProps: []string{"C04"}, Level: "model_checking",
			Rule:       "histories = TLC-enumerated pairs of schema versions (message Ev gains 1-2 fields with fresh higher indices of every leaf class; optionally the reader has deprecated a field the writer still sends) x nesting context {top level, struct field, array element, map value, message field, union branch, field of a union branch's struct/message} x values of the newer version (every subset of fields present); the newer version's reference bytes are decoded by UnmarshalBebop and DecodeBebop generated from the OLDER version; ForwardCompat is model-checked on the ideal decoder; non-trivial if the value carries a field unknown to the older version or deprecated there",
			Assume:     wireAssume,
			Nontrivial: func(s *wireSchema, cs *wireCase) bool { return string(cs.Want) != string(cs.V) }})
	}
}
