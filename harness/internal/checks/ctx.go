// Package checks holds the per-property decision procedures.
package checks

import (
	"crypto/sha256"
	"encoding/hex"
	"encoding/json"
	"fmt"
	"os"
	"path/filepath"
	"sort"
	"strings"
	"time"
)

// Root is the verification directory (the directory of bin/check; /verif unless VERIF_ROOT says otherwise,
// which lets a background sweep run from a snapshot without touching the live tree).
var Root = func() string {
	if r := os.Getenv("VERIF_ROOT"); r != "" {
		return r
	}
	return "/verif"
}()

type Infra struct{ Err error }

func (i Infra) Error() string { return i.Err.Error() }

func infra(format string, a ...interface{}) error { return Infra{fmt.Errorf(format, a...)} }

type Finding struct {
	ID        string          `json:"id"`
	Property  string          `json:"property"`
	Deviation string          `json:"deviation"`
	Status    string          `json:"status"` // open | fixed
	Commit    string          `json:"commit,omitempty"`
	What      string          `json:"what"`
	Witness   json.RawMessage `json:"witness,omitempty"`
}

type Ctx struct {
	Prop     string
	Tier     string
	Seed     int
	Work     string
	Start    time.Time
	Findings []Finding

	violations  int
	knownSeen   map[string]int
	replayPaths []string
	noEvidence  bool   // replay runs do not rewrite the evidence file
	scratchRepo bool   // VERIF_REPO names another checkout: everything as usual, but the evidence file is left alone
	wantWhy     string // replay: the violation class to look for
	sawWantWhy  bool
	quiet       bool
}

func NewCtx(prop, tier string, seed int) (*Ctx, error) {
	c := &Ctx{Prop: prop, Tier: tier, Seed: seed, Start: time.Now(), knownSeen: map[string]int{}}
	c.Work = filepath.Join(Root, "work", fmt.Sprintf("%s-%s-%d", prop, tier, os.Getpid()))
	if r := os.Getenv("VERIF_REPO"); r != "" && r != "/repo" {
		c.scratchRepo = true // a run against a scratch checkout (seeded change) says nothing about /repo: no evidence file
	}
	_ = os.Setenv("VERIF_GOCACHE", filepath.Join(c.Work, "gocache"))
	if err := os.MkdirAll(c.Work, 0o755); err != nil {
		return nil, err
	}
	b, err := os.ReadFile(filepath.Join(Root, "known_findings.json"))
	if err == nil {
		var all struct {
			Findings []Finding `json:"findings"`
		}
		if err := json.Unmarshal(b, &all); err != nil {
			return nil, fmt.Errorf("known_findings.json: %v", err)
		}
		c.Findings = all.Findings
	}
	return c, nil
}

func (c *Ctx) Cleanup() {
	if os.Getenv("VERIF_KEEP") == "" {
		os.RemoveAll(c.Work)
	}
}

// OpenDevs returns the named deviations of open findings filed under any of the given properties.
func (c *Ctx) OpenDevs(props ...string) []string {
	set := map[string]bool{}
	for _, f := range c.Findings {
		if f.Status != "open" {
			continue
		}
		for _, p := range props {
			if f.Property == p {
				set[f.Deviation] = true
			}
		}
	}
	var out []string
	for d := range set {
		out = append(out, d)
	}
	sort.Strings(out)
	return out
}

func (c *Ctx) findingFor(dev string) *Finding {
	for i := range c.Findings {
		if c.Findings[i].Deviation == dev && c.Findings[i].Status == "open" && c.Findings[i].Property == c.Prop {
			return &c.Findings[i]
		}
	}
	for i := range c.Findings {
		if c.Findings[i].Deviation == dev && c.Findings[i].Status == "open" {
			return &c.Findings[i]
		}
	}
	return nil
}

// Known records that an observation was explained by an open known finding.
func (c *Ctx) Known(dev string) { c.knownSeen[dev]++ }

// Violation writes a replay file and prints the VIOLATION line.
func (c *Ctx) Violation(why string, replay interface{}) {
	c.violations++
	if c.wantWhy != "" && (why == c.wantWhy || strings.HasPrefix(c.wantWhy, why) || strings.HasPrefix(why, c.wantWhy)) {
		c.sawWantWhy = true
	}
	if c.noEvidence {
		if !c.quiet {
			fmt.Printf("  still violated: %s\n", why)
		}
		return
	}
	if len(c.replayPaths) >= 25 {
		return // enough replay files; the count is still reported
	}
	b, _ := json.MarshalIndent(map[string]interface{}{"property": c.Prop, "why": why, "tier": c.Tier, "seed": c.Seed, "case": replay}, "", " ")
	h := sha256.Sum256(b)
	dir := filepath.Join(Root, "replays", c.Prop)
	_ = os.MkdirAll(dir, 0o755)
	p := filepath.Join(dir, hex.EncodeToString(h[:8])+".json")
	_ = os.WriteFile(p, b, 0o644)
	c.replayPaths = append(c.replayPaths, p)
	fmt.Printf("VIOLATION property=%s replay=%s\n", c.Prop, p)
	fmt.Printf("  why: %s\n", why)
}

type Coverage map[string]interface{}

// Finish prints KNOWN-FINDING lines, writes the evidence file and returns the exit code.
func (c *Ctx) Finish(level string, cov Coverage, assumptions []string) int {
	var devs []string
	for d := range c.knownSeen {
		devs = append(devs, d)
	}
	sort.Strings(devs)
	for _, d := range devs {
		f := c.findingFor(d)
		what := d
		if f != nil {
			what = f.ID + " " + f.What
		}
		fmt.Printf("KNOWN-FINDING: property=%s %s (%d observations)\n", c.Prop, what, c.knownSeen[d])
	}
	cov["known_finding_observations"] = c.knownSeen
	ev := map[string]interface{}{
		"property_id": c.Prop,
		"tier":        c.Tier,
		"seed":        c.Seed,
		"level":       level,
		"coverage":    cov,
		"assumptions": assumptions,
		"wall_s":      time.Since(c.Start).Seconds(),
		"violations":  c.violations,
	}
	b, _ := json.MarshalIndent(ev, "", " ")
	if c.noEvidence {
		if c.violations > 0 {
			return 1
		}
		return 0
	}
	_ = os.MkdirAll(filepath.Join(Root, "evidence"), 0o755)
	if c.scratchRepo {
		b = nil
	}
	if b == nil {
		// nothing to write
	} else if err := os.WriteFile(filepath.Join(Root, "evidence", c.Prop+".json"), b, 0o644); err != nil {
		fmt.Fprintln(os.Stderr, "cannot write evidence:", err)
		return 2
	}
	if c.violations > 0 {
		fmt.Printf("%s: %d violation(s)\n", c.Prop, c.violations)
		return 1
	}
	fmt.Printf("%s %s: held on everything explored (%.1fs)\n", c.Prop, c.Tier, time.Since(c.Start).Seconds())
	return 0
}

func tlaSet(items []string) string {
	q := make([]string, len(items))
	for i, s := range items {
		q[i] = fmt.Sprintf("%q", s)
	}
	return "{" + strings.Join(q, ", ") + "}"
}
