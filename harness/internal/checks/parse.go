package checks

import (
	"bufio"
	"bytes"
	"encoding/json"
	"fmt"
	"os"
	"path/filepath"
	"sort"
	"strings"
	"sync"
	"time"

	"github.com/200sc/bebop"

	"verif/harness/internal/ast"
	"verif/harness/internal/tlc"
)

type parseCase struct {
	Part   string          `json:"part"`
	Ci     int             `json:"ci"`
	Tokens []string        `json:"tokens"`
	File   json.RawMessage `json:"file"`
	AsIs   json.RawMessage `json:"asisfile,omitempty"`
	Extra  json.RawMessage `json:"extra,omitempty"`
}

// guarded runs f with a watchdog; returns "nil", "err", "panic" or "timeout".
func guarded(d time.Duration, f func() error) (res, msg string) {
	type out struct{ res, msg string }
	ch := make(chan out, 1)
	go func() {
		defer func() {
			if r := recover(); r != nil {
				m := fmt.Sprint(r)
				if len(m) > 200 {
					m = m[:200]
				}
				ch <- out{"panic", m}
			}
		}()
		if err := f(); err != nil {
			m := err.Error()
			if len(m) > 200 {
				m = m[:200]
			}
			ch <- out{"err", m}
			return
		}
		ch <- out{"nil", ""}
	}()
	select {
	case o := <-ch:
		return o.res, o.msg
	case <-time.After(d):
		return "timeout", ""
	}
}

func parseText(text string) (res, msg string, file map[string]interface{}) {
	var f bebop.File
	res, msg = guarded(10*time.Second, func() error {
		var err error
		f, _, err = bebop.ReadFile(strings.NewReader(text))
		return err
	})
	if res == "nil" {
		r2, m2 := guarded(10*time.Second, func() error { file = ast.FileOf(f); return nil })
		if r2 != "nil" {
			return "harness-error", m2, nil
		}
	}
	return
}

func formatText(text string) (res, msg, out string) {
	var b bytes.Buffer
	res, msg = guarded(10*time.Second, func() error { return bebop.Format(strings.NewReader(text), &b) })
	return res, msg, b.String()
}

func genParseCases(c *Ctx, module string, invs string, extraConsts string) ([]*parseCase, *tlc.Result, error) {
	var cases []*parseCase
	var mu sync.Mutex
	g := &tlc.Run{SpecDir: filepath.Join(Root, "spec"), Scratch: filepath.Join(c.Work, "gen-"+module), Module: module, Workers: 16, Timeout: 20 * time.Minute,
		Cfg: fmt.Sprintf("CONSTANTS\n  Tier = %q\n  Seed = %d\n%sINIT Init\nNEXT Next\nINVARIANTS %s\nCHECK_DEADLOCK FALSE\n", c.Tier, c.Seed, extraConsts, invs),
		OnLine: func(tag, js string) {
			if tag == "PCASE" {
				pc := &parseCase{}
				if json.Unmarshal([]byte(js), pc) == nil {
					mu.Lock()
					cases = append(cases, pc)
					mu.Unlock()
				}
			}
		}}
	gr, err := g.Exec()
	if err != nil {
		return nil, nil, infra("%s: %v", module, err)
	}
	if gr.Violated != "" {
		return nil, nil, infra("%s: invariant %s fails on the model (spec bug)\n%s", module, gr.Violated, strings.Join(gr.Tail, "\n"))
	}
	sort.Slice(cases, func(i, j int) bool {
		if cases[i].Part != cases[j].Part {
			return cases[i].Part < cases[j].Part
		}
		return cases[i].Ci < cases[j].Ci
	})
	if len(cases) == 0 {
		return nil, nil, infra("%s produced no cases", module)
	}
	return cases, gr, nil
}

type pverdict struct {
	L       int    `json:"l"`
	Cid     int    `json:"cid"`
	Verdict string `json:"verdict"`
	Why     string `json:"why"`
	Dev     string `json:"dev"`
}

// judgeParse runs Trace_Parse (or another trace module with the same interface) over the events.
func judgeParseModule(c *Ctx, module string, devs []string, cases []*parseCase, events []map[string]interface{}) ([]pverdict, map[string]int, int, int, error) {
	return judgeParse(c, module, "", devs, cases, events)
}

func judgeParse(c *Ctx, module, prop string, devs []string, cases []*parseCase, events []map[string]interface{}) ([]pverdict, map[string]int, int, int, error) {
	casesPath := filepath.Join(c.Work, "cases.ndjson")
	if err := writeNDJSON(casesPath, len(cases), func(i int) interface{} { return cases[i] }); err != nil {
		return nil, nil, 0, 0, err
	}
	nsh := 8
	if len(events) < 800 || forceSingleShard {
		nsh = 1
	}
	per := (len(events) + nsh - 1) / nsh
	type shard struct {
		v   []pverdict
		cnt map[string]int
		res *tlc.Result
		err error
	}
	shards := make([]shard, nsh)
	var wg sync.WaitGroup
	for s := 0; s < nsh; s++ {
		lo, hi := s*per, (s+1)*per
		if hi > len(events) {
			hi = len(events)
		}
		if lo >= hi {
			continue
		}
		wg.Add(1)
		go func(s, lo, hi int) {
			defer wg.Done()
			dir := filepath.Join(c.Work, fmt.Sprintf("judge-%s-%d", prop, s))
			_ = os.MkdirAll(dir, 0o755)
			f, err := os.Create(filepath.Join(dir, "events.ndjson"))
			if err != nil {
				shards[s].err = err
				return
			}
			w := bufio.NewWriterSize(f, 1<<20)
			enc := json.NewEncoder(w)
			for _, e := range events[lo:hi] {
				_ = enc.Encode(e)
			}
			w.Flush()
			f.Close()
			r := &tlc.Run{SpecDir: filepath.Join(Root, "spec"), Scratch: dir, Module: module, Workers: 1, Timeout: 30 * time.Minute,
				Cfg:   judgeCfg(prop, devs),
				Files: map[string]string{"cases.ndjson": casesPath},
				OnLine: func(tag, js string) {
					switch tag {
					case "V":
						var v pverdict
						if json.Unmarshal([]byte(js), &v) == nil {
							v.L += lo
							shards[s].v = append(shards[s].v, v)
						}
					case "COUNTS":
						m := map[string]int{}
						_ = json.Unmarshal([]byte(js), &m)
						shards[s].cnt = m
					}
				}}
			res, err := r.Exec()
			shards[s].res, shards[s].err = res, err
			if err == nil && (res.Violated != "" || shards[s].cnt == nil) {
				shards[s].err = fmt.Errorf("%s did not consume the trace: %s\n%s", module, res.Violated, strings.Join(res.Tail, "\n"))
			}
		}(s, lo, hi)
	}
	wg.Wait()
	total := map[string]int{}
	var vs []pverdict
	st, tr := 0, 0
	for s := range shards {
		if shards[s].err != nil {
			return nil, nil, 0, 0, shards[s].err
		}
		if shards[s].res == nil {
			continue
		}
		st += shards[s].res.Distinct
		tr += shards[s].res.Generated
		for k, v := range shards[s].cnt {
			total[k] += v
		}
		vs = append(vs, shards[s].v...)
	}
	if total["ok"]+total["na"]+total["known"]+total["viol"] != len(events) {
		return nil, nil, 0, 0, fmt.Errorf("%s consumed %d of %d events", module, total["ok"]+total["na"]+total["known"]+total["viol"], len(events))
	}
	sort.Slice(vs, func(i, j int) bool { return vs[i].L < vs[j].L })
	return vs, total, st, tr, nil
}

func reportParseVerdicts(c *Ctx, vs []pverdict, cases []*parseCase, events []map[string]interface{}, kind string) {
	whyCount := map[string]int{}
	seen := map[string]bool{}
	for _, v := range vs {
		switch v.Verdict {
		case "KNOWN":
			c.Known(v.Dev)
		case "VIOLATION":
			whyCount[v.Why]++
			if seen[v.Why] {
				c.violations++
				continue
			}
			seen[v.Why] = true
			cs := cases[0]
			if v.Cid-1 < len(cases) {
				cs = cases[v.Cid-1]
			}
			ev := events[v.L-1]
			c.Violation(v.Why, map[string]interface{}{"kind": kind, "tokens": cs.Tokens, "expected_file": cs.File, "event": ev})
		}
	}
	for why, n := range whyCount {
		fmt.Printf("  violation class: %q x%d\n", why, n)
	}
}

func runParseProp(c *Ctx, prop string) (int, error) {
	cases, gr, err := genParseCases(c, "Gen_Parse", "Wellformed Export", "")
	if err != nil {
		return 2, err
	}
	// the constants/enums/opcodes schema of Gen_Literals.tla joins the universe: its File carries the
	// evaluated [flags] members and the opcode values
	if lc, lgr, err := genLiteralsCase(c); err != nil {
		return 2, err
	} else {
		// how inf/-inf/nan are spelled inside File.Consts[i].Value is not part of the schema's meaning (C15 judges the value)
		nf := blankFloatConsts(lc.File)
		cases = append(cases, &parseCase{Part: "literals", Ci: 1, Tokens: lc.Tokens, File: nf, AsIs: nf})
		gr.Distinct += lgr.Distinct
		gr.Generated += lgr.Generated
	}
	var events []map[string]interface{}
	timeouts := 0
	for i, cs := range cases {
		for _, lay := range ast.Layouts {
			text := ast.Render(cs.Tokens, lay)
			switch prop {
			case "C11":
				res, msg, file := parseText(text)
				if res == "timeout" {
					timeouts++
				}
				if res == "harness-error" {
					return 2, infra("exporting the parsed File failed: %s", msg)
				}
				e := map[string]interface{}{"ev": "parse", "cid": i + 1, "layout": lay.Name, "unspec": lay.Unspecified, "res": res, "msg": msg, "text": text}
				if file != nil && cs.Part == "literals" {
					b, _ := json.Marshal(file)
					e["file"] = blankFloatConsts(b)
				} else if file != nil {
					e["file"] = file
				} else {
					e["file"] = map[string]interface{}{}
				}
				events = append(events, e)
			case "C16", "C17":
				pres, _, _ := parseText(text)
				e := map[string]interface{}{"ev": "format", "cid": i + 1, "layout": lay.Name, "unspec": lay.Unspecified, "parse": pres, "text": text,
					"fres": "", "reparse": "", "file2": map[string]interface{}{}, "idem": false, "out": ""}
				if pres == "nil" {
					fres, fmsg, out := formatText(text)
					e["fres"], e["fmsg"], e["out"] = fres, fmsg, out
					if fres == "timeout" {
						timeouts++
					}
					if fres == "nil" {
						rres, _, file2 := parseText(out)
						e["reparse"] = rres
						if file2 != nil {
							e["file2"] = file2
						}
						f2res, _, out2 := formatText(out)
						e["idem"] = f2res == "nil" && out2 == out
					}
				}
				events = append(events, e)
			}
		}
		if prop == "C16" || prop == "C17" {
			// text-level variants of the standard layout. Their meaning is not taken from the specification's AST but
			// from ReadFile itself (the property is quantified over accepted texts): the File of the formatted text is
			// compared with the File of the text.
			for _, tv := range textVariants(ast.Render(cs.Tokens, ast.Layouts[0])) {
				pres, _, file1 := parseText(tv.text)
				e := map[string]interface{}{"ev": "reformat", "cid": i + 1, "layout": tv.name, "unspec": true, "parse": pres, "text": tv.text,
					"fres": "", "reparse": "", "file1": map[string]interface{}{}, "file2": map[string]interface{}{}, "idem": false, "out": ""}
				if pres == "nil" && file1 != nil {
					e["file1"] = file1
					fres, fmsg, out := formatText(tv.text)
					e["fres"], e["fmsg"], e["out"] = fres, fmsg, out
					if fres == "timeout" {
						timeouts++
					}
					if fres == "nil" {
						rres, _, file2 := parseText(out)
						e["reparse"] = rres
						if file2 != nil {
							e["file2"] = file2
						}
						f2res, _, out2 := formatText(out)
						e["idem"] = f2res == "nil" && out2 == out
					}
				}
				events = append(events, e)
			}
		}
	}
	devs := c.OpenDevs(prop)
	vs, total, st, tr, err := judgeParse(c, "Trace_Parse", prop, devs, cases, events)
	if err != nil {
		return 2, infra("%v", err)
	}
	reportParseVerdicts(c, vs, cases, events, "parse")
	nontriv := 0
	for _, cs := range cases {
		if len(cs.Tokens) > 12 {
			nontriv++
		}
	}
	samples := []interface{}{}
	for _, i := range []int{0, len(events) / 2, len(events) - 1} {
		samples = append(samples, map[string]interface{}{"text": events[i]["text"], "layout": events[i]["layout"], "expected_file": cases[events[i]["cid"].(int)-1].File})
	}
	rule := "texts = TLC-enumerated ASTs (every sequence of 1-2 (quick) / 1-3 (thorough) definitions over 13 definition variants with opcode/readonly/flags/doc-comment attributes; every sequence of 1-2 / 1-3 field variants (plain, deprecated, line doc, block doc, tags, trailing comment, doc+deprecated) inside struct, message, union, enum; every type expression of the shape universe in both array spellings in struct and message) x 5 layouts (standard, CRLF, one-line, airy with blank lines and tabs, tight); non-trivial = more than 12 tokens"
	level := "model_checking"
	if prop == "C17" {
		level = "exploration"
	}
	cov := Coverage{"states": gr.Distinct + st, "transitions": gr.Generated + tr, "traces_validated_against_impl": total["ok"] + total["known"],
		"events_total": len(events), "events_not_applicable": total["na"], "evaluations": len(events), "distinct_nontrivial": nontriv,
		"rule": rule, "samples": samples, "asts": len(cases), "layouts": len(ast.Layouts), "timeouts": timeouts, "open_deviations": devs, "exhaustive": false}
	return c.Finish(level, cov, []string{"BebopSchema.tla (Tokens/FileOf) is the reading of the schema language; layouts are restricted to line-breaking styles the language clearly permits (never a break inside a field, an attribute or a definition header; never a blank line between a doc comment and its target)"}), nil
}

func init() {
	Registry["C11"] = func(c *Ctx) (int, error) { return runParseProp(c, "C11") }
	Registry["C16"] = func(c *Ctx) (int, error) { return runParseProp(c, "C16") }
	Registry["C17"] = func(c *Ctx) (int, error) { return runParseProp(c, "C17") }
}

func runC13(c *Ctx) (int, error) {
	cases, gr, err := genParseCases(c, "Gen_Inject", "BaseWellFormed InjectionsIllFormed GraphVerdicts NamesWellFormed DupVerdicts Export", "  Parts = {\"base\", \"inject\", \"sites\", \"graph\", \"names\", \"impdup\"}\n")
	if err != nil {
		return 2, err
	}
	var events []map[string]interface{}
	nontriv := 0
	for i, cs := range cases {
		var x struct {
			Class, Site, Expect string
			Dep                 []string
		}
		_ = json.Unmarshal(cs.Extra, &x)
		if x.Expect == "reject" {
			nontriv++
		}
		if cs.Part == "impdup" {
			// two files on disk, generated in combined import mode
			dir := filepath.Join(c.Work, fmt.Sprintf("impdup%d", i))
			_ = os.MkdirAll(dir, 0o755)
			text := ast.Render(cs.Tokens, ast.Layouts[0])
			_ = os.WriteFile(filepath.Join(dir, "dep.bop"), []byte(ast.Render(x.Dep, ast.Layouts[0])), 0o644)
			_ = os.WriteFile(filepath.Join(dir, "root.bop"), []byte(text), 0o644)
			var f bebop.File
			rres, rmsg := guarded(20*time.Second, func() error {
				fh, err := os.Open(filepath.Join(dir, "root.bop"))
				if err != nil {
					return err
				}
				defer fh.Close()
				f, _, err = bebop.ReadFile(fh)
				return err
			})
			gres, gmsg := "", ""
			if rres == "nil" {
				gres, gmsg = guarded(20*time.Second, func() error {
					mode := bebop.ImportGenerationModeCombined
					if strings.Contains(x.Site, "separate import mode") {
						mode = bebop.ImportGenerationModeSeparate
					}
					return f.Generate(&bytes.Buffer{}, bebop.GenerateSettings{PackageName: "x", ImportGenerationMode: mode})
				})
			}
			crash := ""
			if rres == "panic" || rres == "timeout" || gres == "panic" || gres == "timeout" {
				crash = "ReadFile/Generate: " + rres + " " + gres
			}
			events = append(events, map[string]interface{}{"ev": "inject", "cid": i + 1, "layout": "std", "accepted": rres == "nil" && gres == "nil",
				"rres": rres, "gres": gres, "msg": rmsg + gmsg, "crash": crash, "text": text + "\n--- dep.bop ---\n" + ast.Render(x.Dep, ast.Layouts[0])})
			continue
		}
		for li, lay := range ast.Layouts {
			if li != 0 && !(cs.Part == "inject" && li == 4) {
				continue // graphs in the standard layout; injections also in the tight one
			}
			text := ast.Render(cs.Tokens, lay)
			var f bebop.File
			crash := ""
			rres, rmsg := guarded(20*time.Second, func() error {
				var err error
				f, _, err = bebop.ReadFile(strings.NewReader(text))
				return err
			})
			gres, gmsg := "", ""
			if rres == "nil" {
				gres, gmsg = guarded(20*time.Second, func() error {
					return f.Generate(&bytes.Buffer{}, bebop.GenerateSettings{PackageName: "x"})
				})
			}
			if rres == "panic" || rres == "timeout" {
				crash = "ReadFile: " + rres
			}
			if gres == "panic" || gres == "timeout" {
				crash = "Generate: " + gres
			}
			events = append(events, map[string]interface{}{"ev": "inject", "cid": i + 1, "layout": lay.Name, "accepted": rres == "nil" && gres == "nil",
				"rres": rres, "gres": gres, "msg": rmsg + gmsg, "crash": crash, "text": text})
		}
	}
	// the analysis as coded (Validate.tla): every order of Go's map iteration, every usage graph on 3 (4) structs
	vn := 3
	vmc := &tlc.Run{SpecDir: filepath.Join(Root, "spec"), Scratch: filepath.Join(c.Work, "validate"), Module: "Validate", Workers: 8, Timeout: 20 * time.Minute,
		Cfg: fmt.Sprintf("CONSTANTS\n  N = %d\nSPECIFICATION Spec\nINVARIANTS Exact Sound\nPROPERTIES Terminates\nCHECK_DEADLOCK FALSE\n", vn)}
	vr, err := vmc.Exec()
	if err != nil {
		return 2, infra("Validate.tla: %v", err)
	}
	if vr.Violated != "" {
		return 2, infra("Validate.tla violates %s (spec bug)", vr.Violated)
	}
	gr.Distinct += vr.Distinct
	gr.Generated += vr.Generated
	devs := c.OpenDevs("C13")
	vs, total, st, tr, err := judgeParse(c, "Trace_Parse", "C13", devs, cases, events)
	if err != nil {
		return 2, infra("%v", err)
	}
	reportParseVerdicts(c, vs, cases, events, "inject")
	samples := []interface{}{}
	for _, i := range []int{0, 3, len(events) - 7} {
		samples = append(samples, map[string]interface{}{"text": events[i]["text"], "accepted": events[i]["accepted"], "expectation": json.RawMessage(cases[events[i]["cid"].(int)-1].Extra)})
	}
	cov := Coverage{"states": gr.Distinct + st, "transitions": gr.Generated + tr, "traces_validated_against_impl": total["ok"] + total["known"],
		"events_total": len(events), "evaluations": len(events), "distinct_nontrivial": nontriv,
		"rule":    "schemas = a valid base schema (enum, typed enum, struct, message, union with struct and message branches, containers, opcodes, consts) x ONE injected error per class of the property at every applicable site (51 injections: undefined types at 9 sites incl. union branches and nested containers; duplicate definition/const/field/option names; duplicate enum values; duplicate message/union indices; index zero; duplicate opcodes; enum values out of range; unassignable const literals; primitive names), each checked by TLC to violate exactly that rule of the reference validator; recursion: EVERY directed graph on 1-3 structs (2+16+512) x edge kind {direct, via message, via union, via array, via map}; non-trivial = cases the reference validator rejects",
		"samples": samples, "schemas": len(cases), "open_deviations": devs, "exhaustive": false, "recursion_graphs_exhaustive_up_to_nodes": 3,
		"validate_fixpoint_model_states": vr.Distinct, "validate_fixpoint_properties": []string{"Exact (verdict = declarative self-containment, for every map iteration order)", "Sound", "Terminates (WF)"}}
	return c.Finish("model_checking", cov, []string{"Gen_Inject!Violated is the reading of the rule list in the property; struct edges through arrays and maps are treated as unspecified (the property says 'necessarily contains itself')"}), nil
}

func init() { Registry["C13"] = runC13 }

func judgeCfg(prop string, devs []string) string {
	if prop == "" {
		return fmt.Sprintf("CONSTANTS\n  Devs = %s\nSPECIFICATION Spec\nINVARIANT Done\nPOSTCONDITION TraceAccepted\nCHECK_DEADLOCK FALSE\n", tlaSet(devs))
	}
	return fmt.Sprintf("CONSTANTS\n  Prop = %q\n  Devs = %s\nSPECIFICATION Spec\nINVARIANT Done\nPOSTCONDITION TraceAccepted\nCHECK_DEADLOCK FALSE\n", prop, tlaSet(devs))
}

func blankFloatConsts(file json.RawMessage) json.RawMessage {
	var f map[string]interface{}
	if json.Unmarshal(file, &f) != nil {
		return file
	}
	if cs, ok := f["consts"].([]interface{}); ok {
		for _, c := range cs {
			if m, ok := c.(map[string]interface{}); ok {
				if t, _ := m["t"].(string); t == "float32" || t == "float64" {
					m["value"] = ""
				}
			}
		}
	}
	b, _ := json.Marshal(f)
	return b
}

type textVariant struct{ name, text string }

// textVariants: the text with blanks in front of every line end (LF and CRLF), and with a line break (behind blanks)
// behind the first character of every quoted literal.
func textVariants(std string) []textVariant {
	var vs []textVariant
	vs = append(vs, textVariant{"trailing blanks, LF", strings.ReplaceAll(std, "\n", " \t\n")})
	vs = append(vs, textVariant{"trailing blanks, CRLF", strings.ReplaceAll(std, "\n", "  \r\n")})
	var b strings.Builder
	in, changed, first := false, false, false
	for k := 0; k < len(std); k++ {
		ch := std[k]
		switch {
		case ch == '\\' && in && k+1 < len(std):
			b.WriteByte(ch)
			k++
			b.WriteByte(std[k])
			continue
		case ch == '"':
			in = !in
			first = in
		case ch == '\n':
			in = false // (a comment with a quote in it)
		case in && first:
			// behind the first character of the literal
			b.WriteByte(ch)
			b.WriteString("  \t\n ")
			changed, first = true, false
			continue
		}
		b.WriteByte(ch)
	}
	if changed {
		vs = append(vs, textVariant{"line breaks inside quoted literals", b.String()})
		vs = append(vs, textVariant{"line breaks inside quoted literals, CRLF", strings.ReplaceAll(b.String(), "\n", "\r\n")})
	}
	return vs
}
