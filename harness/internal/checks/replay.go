package checks

import (
	"encoding/json"
	"fmt"
	"os"
)

// Replay re-executes the case of a replay file against the current tree.
// Wire cases are re-run individually (generate, compile, execute, judge);
// for the other engines the property's quick check is re-run with the recorded
// seed and the replay reports whether the recorded violation class reappears.
func Replay(path string, seed int) int {
	b, err := os.ReadFile(path)
	if err != nil {
		fmt.Fprintln(os.Stderr, "infrastructure error:", err)
		return 2
	}
	var r struct {
		Property string                     `json:"property"`
		Why      string                     `json:"why"`
		Tier     string                     `json:"tier"`
		Seed     int                        `json:"seed"`
		Case     map[string]json.RawMessage `json:"case"`
	}
	if err := json.Unmarshal(b, &r); err != nil {
		fmt.Fprintln(os.Stderr, "infrastructure error: bad replay file:", err)
		return 2
	}
	var kind string
	_ = json.Unmarshal(r.Case["kind"], &kind)
	c, err := NewCtx(r.Property, r.Tier, r.Seed)
	if err != nil {
		fmt.Fprintln(os.Stderr, "infrastructure error:", err)
		return 2
	}
	c.noEvidence = true
	defer c.Cleanup()
	fmt.Printf("replay of %s: %s\n", r.Property, r.Why)
	if kind == "wire" && r.Case["wirecase"] != nil {
		code, err := ReplayWire(c, r.Case)
		if err != nil {
			fmt.Fprintln(os.Stderr, "infrastructure error:", err)
			return 2
		}
		return code
	}
	f, ok := Registry[r.Property]
	if !ok {
		fmt.Fprintln(os.Stderr, "infrastructure error: unknown property", r.Property)
		return 2
	}
	c.wantWhy = r.Why
	code, err := f(c)
	if err != nil {
		fmt.Fprintln(os.Stderr, "infrastructure error:", err)
		return 2
	}
	if code == 1 && c.sawWantWhy {
		fmt.Printf("replay: the recorded violation of %s reappears\n", r.Property)
		return 1
	}
	if code == 1 {
		fmt.Printf("replay: %s is violated, but not in the recorded way\n", r.Property)
		return 1
	}
	fmt.Printf("replay: the recorded violation of %s does not reappear on the current tree\n", r.Property)
	return 0
}
