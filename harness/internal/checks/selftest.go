package checks

import (
	"bytes"
	"fmt"
	"path/filepath"
	"strings"
	"time"

	"verif/harness/internal/tlc"
)

// Selftest guards the guard:
//  1. non-vacuity of the specifications: every named deviation, switched on, makes TLC refute the
//     invariant it is filed under (and the ideal instantiation passes);
//  2. binding: a recorded trace of the real code with ONE field corrupted (a byte of an encoder's
//     output, a consumed count, a dropped Read event, a File field) is rejected by the trace specs.
func Selftest(c *Ctx) int {
	specDir := filepath.Join(Root, "spec")
	failed := 0
	expect := func(name, module, cfg string, wantViolated string) {
		r := &tlc.Run{SpecDir: specDir, Scratch: filepath.Join(c.Work, "st-"+name), Module: module, Cfg: cfg, Workers: 8, Timeout: 15 * time.Minute}
		res, err := r.Exec()
		if err != nil {
			fmt.Printf("selftest %-34s ERROR %v\n", name, err)
			failed++
			return
		}
		ok := (wantViolated == "" && res.Violated == "") || (wantViolated != "" && strings.Contains(res.Violated, wantViolated))
		status := "ok"
		if !ok {
			status = "FAILED"
			failed++
		}
		fmt.Printf("selftest %-34s %s (expected %q, TLC reported %q, %d states)\n", name, status, wantViolated, res.Violated, res.Distinct)
	}
	pl := func(devs string) string {
		return fmt.Sprintf("CONSTANTS\n  MaxLen = 3\n  Devs = %s\nSPECIFICATION Spec\nINVARIANTS AttachExactlyOnce NoSilentDrop\nPROPERTIES NoLeak Terminates\nCHECK_DEADLOCK FALSE\n", devs)
	}
	expect("parserloop-ideal", "ParserLoop", pl("{}"), "")
	expect("parserloop-error-dropped", "ParserLoop", pl(`{"toplevel_tokenizer_error_dropped"}`), "NoSilentDrop")
	expect("parserloop-flags-sticky", "ParserLoop", pl(`{"flags_register_sticky"}`), "NoLeak")
	cli := func(tool string) string {
		return fmt.Sprintf("CONSTANTS\n  Tool = %q\n  NWrites = 3\nSPECIFICATION Spec\nINVARIANTS TargetIntact ExitIffError FailureKeepsOld SuccessIsComplete\nPROPERTIES Terminates\nCHECK_DEADLOCK FALSE\n", tool)
	}
	expect("cli-atomic", "Cli", cli("atomic"), "")
	expect("cli-inplace", "Cli", cli("inplace"), "TargetIntact")
	gc := func(mode string, spare int) string {
		return fmt.Sprintf("CONSTANTS\n  G = 2\n  K = 2\n  Len0 = 2\n  Spare = %d\n  Mode = %q\nSPECIFICATION Spec\nINVARIANTS NoRace CallerUnchanged\nPROPERTIES Terminates\nCHECK_DEADLOCK FALSE\n", spare, mode)
	}
	expect("genconcurrency-clip", "GenConcurrency", gc("clip", 2), "")
	expect("genconcurrency-append-spare", "GenConcurrency", gc("append", 2), "Unchanged")
	expect("genconcurrency-append-nospare", "GenConcurrency", gc("append", 0), "")
	// 2. binding self-tests on real traces
	bind := func(name string, sp *WireSpec, corrupt func(lines [][]byte) [][]byte) {
		sub := *c
		sub.violations = 0
		sub.knownSeen = map[string]int{}
		sub.noEvidence = true
		sub.quiet = true
		sp.corrupt = corrupt
		work := filepath.Join(c.Work, "bind-"+name)
		_, code, err := runWirePart(&sub, work, sp)
		if err != nil || code == 2 {
			fmt.Printf("selftest %-34s ERROR %v\n", name, err)
			failed++
			return
		}
		if sub.violations == 0 {
			fmt.Printf("selftest %-34s FAILED: the corrupted trace was accepted\n", name)
			failed++
			return
		}
		fmt.Printf("selftest %-34s ok (corrupted trace rejected: %d event(s))\n", name, sub.violations)
	}
	few := func(s *wireSchema, cs *wireCase) bool { return cs.Sid%97 == 3 }
	flip := func(field string) func([][]byte) [][]byte {
		return func(lines [][]byte) [][]byte {
			done := false
			for i, ln := range lines {
				if done {
					break
				}
				key := []byte(`"` + field + `":[`)
				j := bytes.Index(ln, key)
				if j < 0 || !bytes.Contains(ln, []byte(`"api":"MarshalBebop"`)) && field == "out" {
					continue
				}
				k := j + len(key)
				if k < len(ln) && ln[k] >= '0' && ln[k] <= '9' {
					n := append([]byte{}, ln[:k]...)
					n = append(n, '9', '9')
					// skip the original first number
					e := k
					for e < len(ln) && ln[e] >= '0' && ln[e] <= '9' {
						e++
					}
					n = append(n, ln[e:]...)
					lines[i] = n
					done = true
				}
			}
			return lines
		}
	}
	base := map[string]string{"OptMode": `"default"`, "ValMode": `"few"`, "Muts": `"none"`}
	bind("wire-encoder-byte-flipped", &WireSpec{GenModule: "Gen_Wire", GenConsts: base, GenInvs: []string{"Export"}, Op: "codec", JudgeProp: "C02", Level: "model_checking", CaseFilter: few}, flip("out"))
	bind("wire-decoded-value-flipped", &WireSpec{GenModule: "Gen_Wire", GenConsts: base, GenInvs: []string{"Export"}, Op: "codec", JudgeProp: "C03", Level: "model_checking", CaseFilter: few}, flip("val"))
	streamConsts := map[string]string{"OptMode": `"default"`, "ValMode": `"few"`, "Muts": `"stream"`}
	bind("stream-read-event-dropped", &WireSpec{GenModule: "Gen_Wire", GenConsts: streamConsts, GenInvs: []string{"Export"}, Op: "stream", JudgeProp: "C05", Level: "model_checking", CaseFilter: few},
		func(lines [][]byte) [][]byte {
			for i, ln := range lines {
				if bytes.HasPrefix(ln, []byte(`{"ev":"sread"`)) {
					return append(lines[:i:i], lines[i+1:]...)
				}
			}
			return lines
		})
	// the padded events of C04 (an unknown field of up to 70001 bytes in the evolved message): one more byte reported as consumed
	bind("evolve-padded-consumed-off", &WireSpec{GenModule: "Gen_Evolve", GenInvs: []string{"Export"}, Op: "decref", JudgeProp: "C04", DevProps: []string{"C04"}, Level: "model_checking",
		CaseFilter: func(s *wireSchema, cs *wireCase) bool { return cs.Sid%41 == 3 }},
		func(lines [][]byte) [][]byte {
			key := []byte(`"consumed":`)
			for i, ln := range lines {
				if !bytes.HasPrefix(ln, []byte(`{"ev":"padded"`)) {
					continue
				}
				if j := bytes.Index(ln, key); j >= 0 {
					k := j + len(key)
					n := append([]byte{}, ln[:k]...)
					n = append(n, '9')
					lines[i] = append(n, ln[k:]...)
					return lines
				}
			}
			return lines
		})
	if failed > 0 {
		fmt.Printf("selftest: %d FAILED\n", failed)
		return 1
	}
	fmt.Println("selftest: all passed")
	return 0
}
