package checks

import (
	"fmt"
	"os"
	"os/exec"
	"path/filepath"
	"strings"
)

// Setup parses every specification module with SANY (in a scratch copy).
func Setup() int {
	scratch := filepath.Join(Root, "work", fmt.Sprintf("setup-%d", os.Getpid()))
	defer os.RemoveAll(scratch)
	if err := os.MkdirAll(scratch, 0o755); err != nil {
		fmt.Fprintln(os.Stderr, err)
		return 2
	}
	ents, err := os.ReadDir(filepath.Join(Root, "spec"))
	if err != nil {
		fmt.Fprintln(os.Stderr, err)
		return 2
	}
	var mods []string
	for _, e := range ents {
		if strings.HasSuffix(e.Name(), ".tla") {
			b, _ := os.ReadFile(filepath.Join(Root, "spec", e.Name()))
			_ = os.WriteFile(filepath.Join(scratch, e.Name()), b, 0o644)
			mods = append(mods, e.Name())
		}
	}
	bad := 0
	for _, m := range mods {
		cmd := exec.Command("java", "-cp", "/opt/veriftools/tla/tla2tools.jar:/opt/veriftools/tla/CommunityModules-deps.jar", "tla2sany.SANY", m)
		cmd.Dir = scratch
		out, err := cmd.CombinedOutput()
		if err != nil || strings.Contains(string(out), "*** Errors") || strings.Contains(string(out), "Semantic errors") || strings.Contains(string(out), "Fatal errors") {
			fmt.Printf("SANY rejects %s:\n%s\n", m, out)
			bad++
		}
	}
	if bad > 0 {
		return 2
	}
	fmt.Printf("setup: harness built, %d specification modules parse\n", len(mods))
	return 0
}
