package checks

import (
	"bufio"
	"bytes"
	"encoding/json"
	"fmt"
	"os"
	"path/filepath"
	"sort"
	"strings"
	"sync"
	"time"

	"verif/harness/internal/abs"
	"verif/harness/internal/ast"
	"verif/harness/internal/genrun"
	"verif/harness/internal/randschema"
	"verif/harness/internal/sup"
	"verif/harness/internal/tlc"
)

type wireSchema struct {
	Sid  int             `json:"sid"`
	Defs json.RawMessage `json:"defs"`
	Tag  string          `json:"tag"`
	Ctx  string          `json:"ctx"`
	Ft   json.RawMessage `json:"ft,omitempty"`
	// C04: the older version of the schema
	Defs1 json.RawMessage `json:"defs1,omitempty"`
	// schemas that are given as text (C12: constants; names) rather than as abstract definitions
	Text string          `json:"text,omitempty"`
	Nm   json.RawMessage `json:"nm,omitempty"`
	// C12: a schema with imports - the imported file's text; both texts carry @ROOTPKG@ / @DEPPKG@ placeholders
	DepText   string `json:"deptext,omitempty"`
	DepTextC  string `json:"deptextc,omitempty"` // for combined mode: without a go_package of its own
	Dep2Text  string `json:"dep2text,omitempty"` // a second imported file (package name = the first one's + "x")
	Dep2TextC string `json:"dep2textc,omitempty"`
}

type wireCase struct {
	Sid    int                        `json:"sid"`
	Si     int                        `json:"si"`
	Vi     int                        `json:"vi"`
	Opts   []string                   `json:"opts"`
	Mask   int                        `json:"mask"`
	Root   string                     `json:"root"`
	V      json.RawMessage            `json:"v"`
	Enc    []int                      `json:"enc"`
	Lay    []string                   `json:"lay,omitempty"`
	Inputs json.RawMessage            `json:"inputs,omitempty"`
	PredB  []string                   `json:"predb,omitempty"`
	PredS  []string                   `json:"preds,omitempty"`
	Seq    json.RawMessage            `json:"seq,omitempty"`
	SeqEnc json.RawMessage            `json:"seqenc,omitempty"`
	Scheds json.RawMessage            `json:"scheds,omitempty"`
	Want   json.RawMessage            `json:"want,omitempty"`
	AsIs   json.RawMessage            `json:"asis,omitempty"`
	Extra  map[string]json.RawMessage `json:"-"`
	Pid    string                     `json:"pid"`
}

// WireSpec parameterises the shared pipeline of the generated-code properties.
type WireSpec struct {
	GenModule string            // TLA+ module that enumerates the cases
	GenConsts map[string]string // extra constants for the Gen cfg (TLA+ syntax)
	GenInvs   []string          // invariants (design theorems + Export)
	Op        string            // worker operation
	Errs      []string          // fault kinds for fault ops
	Resumable bool
	JudgeProp string   // value of Prop in the trace spec
	DevProps  []string // properties whose open findings form Devs
	Level     string
	Rule      string
	Assume    []string
	// ForceOpts generates every package of this part under these options
	ForceOpts    []string
	corrupt      func(lines [][]byte) [][]byte // selftest: tamper with the recorded trace
	replaySchema *wireSchema
	replayCase   *wireCase
	// CaseFilter drops cases before execution (nil keeps all)
	CaseFilter func(s *wireSchema, c *wireCase) bool
	// Nontrivial says whether a case counts as non-trivial for the evidence
	Nontrivial func(s *wireSchema, c *wireCase) bool
}

type verdict struct {
	L       int    `json:"l"`
	Cid     int    `json:"cid"`
	M       int    `json:"m"`
	Ev      string `json:"ev"`
	Verdict string `json:"verdict"`
	Why     string `json:"why"`
	Dev     string `json:"dev"`
}

func genCfg(consts map[string]string, invs []string) string {
	var b strings.Builder
	b.WriteString("CONSTANTS\n")
	keys := make([]string, 0, len(consts))
	for k := range consts {
		keys = append(keys, k)
	}
	sort.Strings(keys)
	for _, k := range keys {
		fmt.Fprintf(&b, "  %s = %s\n", k, consts[k])
	}
	b.WriteString("INIT Init\nNEXT Next\n")
	if len(invs) > 0 {
		b.WriteString("INVARIANTS " + strings.Join(invs, " ") + "\n")
	}
	b.WriteString("CHECK_DEADLOCK FALSE\n")
	return b.String()
}

func writeNDJSON(path string, n int, item func(i int) interface{}) error {
	f, err := os.Create(path)
	if err != nil {
		return err
	}
	w := bufio.NewWriterSize(f, 1<<20)
	enc := json.NewEncoder(w)
	for i := 0; i < n; i++ {
		if err := enc.Encode(item(i)); err != nil {
			f.Close()
			return err
		}
	}
	if err := w.Flush(); err != nil {
		f.Close()
		return err
	}
	return f.Close()
}

type wireRun struct {
	schemas []*wireSchema
	cases   []*wireCase
	genRes  *tlc.Result
	ws      *genrun.Workspace
}

// RunWire is the pipeline "TLC generates -> the real code executes -> TLC judges".
func RunWire(c *Ctx, sp *WireSpec) (int, error) { return RunWireParts(c, []*WireSpec{sp}) }

// RunWireParts runs several universes for one property and merges their coverage.
func RunWireParts(c *Ctx, parts []*WireSpec) (int, error) {
	var merged Coverage
	for i, sp := range parts {
		sub := *c
		sub.Work = filepath.Join(c.Work, fmt.Sprintf("part%d", i))
		_ = os.MkdirAll(sub.Work, 0o755)
		cov, code, err := runWirePart(c, sub.Work, sp)
		if err != nil || code == 2 {
			return code, err
		}
		if merged == nil {
			merged = cov
			continue
		}
		for k, v := range cov {
			switch x := v.(type) {
			case int:
				if y, ok := merged[k].(int); ok {
					merged[k] = x + y
				}
			case []interface{}:
				if y, ok := merged[k].([]interface{}); ok && k == "samples" {
					merged[k] = append(y, x...)
				}
			case string:
				if y, ok := merged[k].(string); ok && k == "rule" {
					merged[k] = y + " || part " + fmt.Sprint(i+1) + ": " + x
				}
			}
		}
	}
	return c.Finish(parts[0].Level, merged, parts[0].Assume), nil
}

func runWirePart(c *Ctx, work string, sp *WireSpec) (Coverage, int, error) {
	specDir := filepath.Join(Root, "spec")
	// 1. TLC enumerates the cases and checks the design theorems on them
	consts := map[string]string{"Tier": fmt.Sprintf("%q", c.Tier), "Seed": fmt.Sprint(c.Seed)}
	for k, v := range sp.GenConsts {
		consts[k] = v
	}
	run := &wireRun{}
	bySid := map[int]int{}
	var mu sync.Mutex
	var parseErr error
	if sp.replaySchema != nil {
		run.schemas = []*wireSchema{sp.replaySchema}
		run.cases = []*wireCase{sp.replayCase}
	}
	// seeded random schemas join the universe of Gen_Wire (the specification supplies values and judgements)
	extraFiles := map[string]string{}
	if sp.GenModule == "Gen_Wire" && sp.replaySchema == nil {
		nr := 40
		if c.Tier == "thorough" {
			nr = 240
		}
		_ = os.MkdirAll(work, 0o755)
		ep := filepath.Join(work, "extra.ndjson")
		if err := writeNDJSON(ep, nr, func(i int) interface{} {
			return map[string]interface{}{"defs": randschema.JSON(randschema.Schema(int64(c.Seed)*100003 + int64(i)))}
		}); err != nil {
			return nil, 2, infra("%v", err)
		}
		extraFiles["extra.ndjson"] = ep
	}
	g := &tlc.Run{SpecDir: specDir, Scratch: filepath.Join(work, "gen"), Module: sp.GenModule, Files: extraFiles,
		Cfg: genCfg(consts, sp.GenInvs), Workers: 16, Timeout: 20 * time.Minute,
		OnLine: func(tag, js string) {
			mu.Lock()
			defer mu.Unlock()
			switch tag {
			case "SCHEMA":
				s := &wireSchema{}
				if err := json.Unmarshal([]byte(js), s); err != nil {
					parseErr = err
					return
				}
				run.schemas = append(run.schemas, s)
			case "CASE":
				cs := &wireCase{}
				if err := json.Unmarshal([]byte(js), cs); err != nil {
					parseErr = err
					return
				}
				run.cases = append(run.cases, cs)
			}
		}}
	var gr *tlc.Result
	var err error
	if sp.replaySchema != nil {
		gr = &tlc.Result{Distinct: 1, Generated: 1}
	} else {
		gr, err = g.Exec()
	}
	if err != nil {
		return nil, 2, infra("case generation: %v", err)
	}
	if parseErr != nil {
		return nil, 2, infra("case generation: bad JSON from TLC: %v", parseErr)
	}
	if gr.Violated != "" {
		return nil, 2, infra("the design-level theorem %s fails on the ideal specification (spec bug):\n%s", gr.Violated, strings.Join(gr.Tail, "\n"))
	}
	run.genRes = gr
	sort.Slice(run.schemas, func(i, j int) bool { return run.schemas[i].Sid < run.schemas[j].Sid })
	for i, s := range run.schemas {
		bySid[s.Sid] = i
	}
	sort.Slice(run.cases, func(i, j int) bool {
		a, b := run.cases[i], run.cases[j]
		if a.Sid != b.Sid {
			return a.Sid < b.Sid
		}
		if a.Vi != b.Vi {
			return a.Vi < b.Vi
		}
		return a.Mask < b.Mask
	})
	if sp.CaseFilter != nil {
		kept := run.cases[:0]
		for _, cs := range run.cases {
			if sp.CaseFilter(run.schemas[bySid[cs.Sid]], cs) {
				kept = append(kept, cs)
			}
		}
		run.cases = kept
	}
	if len(run.cases) == 0 {
		return nil, 2, infra("no cases generated")
	}
	// C12: the schema of constants, enums, [flags] expressions and opcodes (Gen_Literals.tla) under every option set in play,
	// and every naming of the small schemas of Gen_Inject's "names" part under the option sets that change how names are exposed
	if sp.Op == "generate" && sp.replaySchema == nil {
		lc, lgr, err := genLiteralsCase(c)
		if err != nil {
			return nil, 2, err
		}
		gr.Distinct += lgr.Distinct
		gr.Generated += lgr.Generated
		masks := map[int][]string{}
		for _, cs := range run.cases {
			masks[cs.Mask] = cs.Opts
		}
		boolT := json.RawMessage(`{"k":"p","p":"bool"}`)
		ls := &wireSchema{Sid: 900000, Defs: json.RawMessage("[]"), Tag: "constants, enums, flags, opcodes", Ctx: "consts", Ft: boolT, Text: ast.Render(lc.Tokens, ast.Layouts[0])}
		run.schemas = append(run.schemas, ls)
		bySid[ls.Sid] = len(run.schemas) - 1
		for m, opts := range masks {
			run.cases = append(run.cases, &wireCase{Sid: ls.Sid, Vi: 1, Opts: opts, Mask: m, Root: "Root", V: json.RawMessage("[]"), Enc: []int{}})
		}
		ncs, ngr, err := genParseCases(c, "Gen_Inject", "NamesWellFormed ImportUseWellFormed Export", "  Parts = {\"names\", \"impuse\"}\n")
		if err != nil {
			return nil, 2, err
		}
		gr.Distinct += ngr.Distinct
		gr.Generated += ngr.Generated
		nameMasks := [][]string{{}, {"AlwaysUsePointerReceivers", "PrivateDefinitions", "GenerateFieldTags", "GenerateUnsafeMethods", "SharedMemoryStrings"}}
		nameMaskIds := []int{0, 31}
		if c.Tier == "thorough" {
			nameMasks = append(nameMasks, []string{"PrivateDefinitions"}, []string{"AlwaysUsePointerReceivers", "GenerateUnsafeMethods"})
			nameMaskIds = append(nameMaskIds, 2, 9)
		}
		// every use of an imported definition, in separate mode (the imported file is generated into its own package) and
		// in combined mode, without options and with all options that do not make the imported package's names private
		impOpts := [][]string{{}, {"AlwaysUsePointerReceivers", "GenerateFieldTags", "GenerateUnsafeMethods", "SharedMemoryStrings"}}
		for i, nc := range ncs {
			if nc.Part != "impuse" {
				continue
			}
			var x struct {
				Site  string   `json:"site"`
				Dep   []string `json:"dep"`
				Depc  []string `json:"depc"`
				Dep2  []string `json:"dep2"`
				Dep2c []string `json:"dep2c"`
			}
			_ = json.Unmarshal(nc.Extra, &x)
			is := &wireSchema{Sid: 920000 + i, Defs: json.RawMessage("[]"), Tag: x.Site, Ctx: "impuse", Ft: boolT, Text: ast.Render(nc.Tokens, ast.Layouts[0]), DepText: ast.Render(x.Dep, ast.Layouts[0]), DepTextC: ast.Render(x.Depc, ast.Layouts[0])}
			if len(x.Dep2) > 0 {
				is.Dep2Text, is.Dep2TextC = ast.Render(x.Dep2, ast.Layouts[0]), ast.Render(x.Dep2c, ast.Layouts[0])
			}
			run.schemas = append(run.schemas, is)
			bySid[is.Sid] = len(run.schemas) - 1
			for k, opts := range impOpts {
				run.cases = append(run.cases, &wireCase{Sid: is.Sid, Vi: 1, Opts: opts, Mask: 40 + k, Root: "Holder", V: json.RawMessage("[]"), Enc: []int{}})
				run.cases = append(run.cases, &wireCase{Sid: is.Sid, Vi: 1, Opts: append(append([]string{}, opts...), "Combined"), Mask: 50 + k, Root: "Holder", V: json.RawMessage("[]"), Enc: []int{}})
			}
		}
		for i, nc := range ncs {
			if nc.Part != "names" {
				continue
			}
			var x struct {
				Site string          `json:"site"`
				Name json.RawMessage `json:"name"`
			}
			_ = json.Unmarshal(nc.Extra, &x)
			ns := &wireSchema{Sid: 910000 + i, Defs: json.RawMessage("[]"), Tag: "identifier " + x.Site, Ctx: "names", Ft: boolT, Text: ast.Render(nc.Tokens, ast.Layouts[0]), Nm: x.Name}
			run.schemas = append(run.schemas, ns)
			bySid[ns.Sid] = len(run.schemas) - 1
			for k, opts := range nameMasks {
				run.cases = append(run.cases, &wireCase{Sid: ns.Sid, Vi: 1, Opts: opts, Mask: nameMaskIds[k], Root: "Root", V: json.RawMessage("[]"), Enc: []int{}})
			}
		}
	}
	// 2. the real generator on every (schema, option set)
	plans := map[string]*genrun.Plan{}
	var planList []*genrun.Plan
	nSplit := 0
	for _, cs := range run.cases {
		if sp.ForceOpts != nil {
			cs.Opts = sp.ForceOpts
			cs.Mask = 99
		}
		cs.Si = bySid[cs.Sid] + 1
		cs.Pid = fmt.Sprintf("p%dm%d", cs.Sid, cs.Mask)
		if plans[cs.Pid] == nil {
			var sch abs.Schema
			if err := json.Unmarshal(run.schemas[bySid[cs.Sid]].Defs, &sch); err != nil {
				return nil, 2, infra("schema %d: %v", cs.Sid, err)
			}
			p := &genrun.Plan{Pid: cs.Pid, Sid: cs.Sid, Schema: sch, Opts: cs.Opts}
			p.Text = run.schemas[bySid[cs.Sid]].Text
			// a seed-rotating quarter of the schemas that have supporting definitions is generated the way a project with
			// shared types is: the supporting definitions in an imported file, separately generated into its own package
			if sp.GenModule == "Gen_Wire" && sp.Op != "generate" && p.Text == "" && cs.Sid < 900000 && (cs.Sid+c.Seed)%4 == 1 && !hasOpt(cs.Opts, "PrivateDefinitions") {
				if rt, dt, ok := abs.RenderSplit(sch, "verifwork/gen/"+cs.Pid, "verifwork/gen/"+cs.Pid+"d"); ok {
					p.Text = rt
					p.Files = map[string]string{"dep.bop": dt}
					dp := &genrun.Plan{Pid: cs.Pid + "d", Sid: cs.Sid, Text: dt, Opts: cs.Opts}
					plans[dp.Pid] = dp
					planList = append(planList, dp)
					nSplit++
				}
			}
			if dt := run.schemas[bySid[cs.Sid]].DepText; dt != "" {
				// the go_package of each file is the import path of its package inside the workspace module
				fill := strings.NewReplacer("@ROOTPKG@", "verifwork/gen/"+cs.Pid, "@DEPPKG@", "verifwork/gen/"+cs.Pid+"d", "@DEP2PKG@", "verifwork/gen/"+cs.Pid+"dx")
				p.Text = fill.Replace(p.Text)
				combined := false
				var depOpts []string
				for _, o := range cs.Opts {
					if o == "Combined" {
						combined = true
					} else {
						depOpts = append(depOpts, o)
					}
				}
				p.Files = map[string]string{"dep.bop": fill.Replace(dt)}
				if combined {
					p.Files["dep.bop"] = run.schemas[bySid[cs.Sid]].DepTextC
				}
				if d2 := run.schemas[bySid[cs.Sid]].Dep2Text; d2 != "" {
					p.Files["dep2.bop"] = fill.Replace(d2)
					if combined {
						p.Files["dep2.bop"] = run.schemas[bySid[cs.Sid]].Dep2TextC
					} else {
						dp2 := &genrun.Plan{Pid: cs.Pid + "dx", Sid: cs.Sid, Text: fill.Replace(d2), Opts: depOpts}
						plans[dp2.Pid] = dp2
						planList = append(planList, dp2)
					}
				}
				if !combined {
					dp := &genrun.Plan{Pid: cs.Pid + "d", Sid: cs.Sid, Text: fill.Replace(dt), Opts: depOpts}
					plans[dp.Pid] = dp
					planList = append(planList, dp)
				}
			}
			plans[cs.Pid] = p
			planList = append(planList, p)
		}
	}
	t0 := time.Now()
	ws, err := genrun.Build(filepath.Join(work, "mod"), planList, sp.Op != "generate")
	if err != nil {
		return nil, 2, infra("%v", err)
	}
	run.ws = ws
	buildSecs := time.Since(t0).Seconds()
	rejected, uncompilable := 0, 0
	var rejSample string
	for _, p := range planList {
		b := ws.Builts[p.Pid]
		if !b.Accepted {
			rejected++
			if rejSample == "" {
				rejSample = fmt.Sprintf("%s: %s%s%s", run.schemas[bySid[p.Sid]].Tag, b.ReadErr, b.GenErr, b.Panic)
			}
		} else if !b.Compiles {
			uncompilable++
		}
	}
	// the import-use schemas are valid by construction (ImportUseWellFormed): a rejection means the driver is broken
	for _, p := range planList {
		if b := ws.Builts[p.Pid]; !b.Accepted && run.schemas[bySid[p.Sid]].Ctx == "impuse" && sp.replaySchema == nil {
			return nil, 2, infra("the generator rejects a schema with imports (%s): %s%s%s", run.schemas[bySid[p.Sid]].Tag, b.ReadErr, b.GenErr, b.Panic)
		}
	}
	if rejected*4 > len(planList) {
		return nil, 2, infra("the generator rejected %d of %d well-formed schemas (e.g. %s): cannot exercise generated code", rejected, len(planList), rejSample)
	}
	// packages file for the worker
	var pkgLines []map[string]interface{}
	for _, p := range planList {
		b := ws.Builts[p.Pid]
		if b.Accepted && b.Compiles {
			pkgLines = append(pkgLines, map[string]interface{}{"pid": p.Pid, "sid": p.Sid, "defs": run.schemas[bySid[p.Sid]].Defs, "opts": p.Opts})
		}
	}
	pkgFile := filepath.Join(work, "packages.ndjson")
	if err := writeNDJSON(pkgFile, len(pkgLines), func(i int) interface{} { return pkgLines[i] }); err != nil {
		return nil, 2, infra("%v", err)
	}
	// 3. commands
	var cmds []*sup.Cmd
	executed := 0
	predictedSkipped := 0
	budgetB, budgetS := map[string]int{}, map[string]int{}
	siblings := map[string][]int{}
	for i, cs := range run.cases {
		if len(cs.Enc) <= 300 {
			siblings[cs.Pid] = append(siblings[cs.Pid], i)
		}
	}
	for i, cs := range run.cases {
		b := ws.Builts[cs.Pid]
		if !(b.Accepted && b.Compiles) {
			continue
		}
		executed++
		j := map[string]interface{}{"cid": i + 1, "pid": cs.Pid, "root": cs.Root, "v": cs.V, "ref": cs.Enc, "op": sp.Op}
		if len(sp.Errs) > 0 {
			j["errs"] = sp.Errs
		}
		if cs.Inputs != nil {
			j["inputs"] = cs.Inputs
		}
		if sp.Op == "codec" && sp.JudgeProp == "C09" {
			// another value of the same package's schema (the next case of the package, cyclically)
			if sib := siblings[cs.Pid]; len(sib) > 1 {
				for k, ci := range sib {
					if ci == i {
						j["alt"] = run.cases[sib[(k+1)%len(sib)]].Enc
					}
				}
			}
		}
		if sp.Op == "decref" && sp.JudgeProp == "C04" {
			j["ctx"] = run.schemas[bySid[cs.Sid]].Ctx // where the evolved message sits (the worker pads it with a large unknown field)
		}
		if sp.Op == "codec" && sp.JudgeProp == "C01" {
			// payloads beyond buffer sizes through every decoder: the first value of every schema and a seed-rotating sixteenth of the rest
			j["bigpayload"] = cs.Vi <= 1 || (cs.Sid+cs.Vi+c.Seed)%16 == 0
		}
		if sp.Op == "stream" {
			j["seq"] = cs.Seq
			j["seqenc"] = cs.SeqEnc
			j["scheds"] = cs.Scheds
			// payloads beyond buffer sizes: the first two values of every schema, and a seed-rotating eighth of the rest
			j["bigpayload"] = cs.Vi <= 2 || (cs.Sid+cs.Vi+c.Seed)%8 == 0
		}
		if sp.Op == "corrupt" {
			// inputs on which the as-is model predicts a runaway are executed only as a sample
			mk := func(pred []string, budget map[string]int) []bool {
				sk := make([]bool, len(pred))
				for k, d := range pred {
					if d != "" {
						if _, ok := budget[d]; !ok {
							budget[d] = 12
						}
						if budget[d] > 0 && (k+i)%5 == 0 {
							budget[d]--
						} else {
							sk[k] = true
							predictedSkipped++
						}
					}
				}
				return sk
			}
			j["skipb"] = mk(cs.PredB, budgetB)
			j["skips"] = mk(cs.PredS, budgetS)
		}
		cmds = append(cmds, &sup.Cmd{Cid: i + 1, Op: sp.Op, JSON: j})
	}
	evPath := filepath.Join(work, "events.ndjson")
	evf, err := os.Create(evPath)
	if err != nil {
		return nil, 2, infra("%v", err)
	}
	evw := bufio.NewWriterSize(evf, 1<<20)
	nEvents := 0
	harnessErrs := 0
	var harnessErrSample string
	var eventLines [][]byte
	t1 := time.Now()
	if sp.Op == "generate" {
		// C12: the observation is the generator's verdict and the compiler's
		cmds = nil
		for i, cs := range run.cases {
			b := ws.Builts[cs.Pid]
			diag := b.Diag
			if len(diag) > 400 {
				diag = diag[:400]
			}
			ln, _ := json.Marshal(map[string]interface{}{"ev": "generate", "cid": i + 1, "m": 0, "res": "nil", "accepted": b.Accepted,
				"compiles": b.Compiles, "diag": diag, "reject": b.ReadErr + b.GenErr + b.Panic})
			eventLines = append(eventLines, ln)
			nEvents++
		}
		executed = len(run.cases)
	}
	st, err := sup.Run(&sup.Config{Worker: ws.Worker, PkgFile: pkgFile, Procs: 12,
		Resumable: map[string]bool{"cuts": true, "corrupt": true, "rfault": true, "wfault": true}},
		cmds, func(cid int, line []byte) {
			if strings.Contains(string(line), `"res":"harness-error"`) {
				harnessErrs++
				if harnessErrSample == "" {
					harnessErrSample = string(line)
				}
				return
			}
			nEvents++
			eventLines = append(eventLines, append([]byte{}, line...))
		})
	if err != nil {
		return nil, 2, infra("worker supervision: %v", err)
	}
	execSecs := time.Since(t1).Seconds()
	if harnessErrs > 0 {
		return nil, 2, infra("%d harness errors in the worker, e.g. %s", harnessErrs, harnessErrSample)
	}
	_ = evw
	evf.Close()
	// events of one case stay together and in order (each case is run by one worker)
	sort.SliceStable(eventLines, func(i, j int) bool { return cidOf(eventLines[i]) < cidOf(eventLines[j]) })
	if sp.corrupt != nil {
		eventLines = sp.corrupt(eventLines)
		nEvents = len(eventLines)
	}
	var streamLines [][]byte
	if sp.Op == "stream" {
		kept := eventLines[:0]
		for _, ln := range eventLines {
			if bytes.HasPrefix(ln, []byte(`{"ev":"sbegin"`)) || bytes.HasPrefix(ln, []byte(`{"ev":"sread"`)) || bytes.HasPrefix(ln, []byte(`{"ev":"sret"`)) || bytes.HasPrefix(ln, []byte(`{"ev":"sabort"`)) {
				streamLines = append(streamLines, ln)
			} else {
				kept = append(kept, ln)
			}
		}
		eventLines = kept
		nEvents = len(eventLines)
	}
	if nEvents == 0 {
		return nil, 2, infra("the worker produced no observations")
	}
	// 4. TLC judges: shard events over parallel TLC processes
	schemasPath := filepath.Join(work, "schemas.ndjson")
	if err := writeNDJSON(schemasPath, len(run.schemas), func(i int) interface{} { return run.schemas[i] }); err != nil {
		return nil, 2, infra("%v", err)
	}
	devs := c.OpenDevs(sp.DevProps...)
	// shards of whole cases: events are grouped by case (their order within a case is kept), each shard gets the events
	// of a range of cases and only those cases; memory per TLC process stays bounded whatever the run's size
	nShards := 12
	if nEvents < 2000 {
		nShards = 1 + nEvents/200
	}
	if nEvents > 12*150000 {
		nShards = nEvents/150000 + 1
	}
	per := (len(eventLines) + nShards - 1) / nShards
	// shard boundaries at case boundaries
	type span struct{ lo, hi, cidLo, cidHi int }
	var spans []span
	for lo := 0; lo < len(eventLines); {
		hi := lo + per
		if hi >= len(eventLines) {
			hi = len(eventLines)
		} else {
			last := cidOf(eventLines[hi-1])
			for hi < len(eventLines) && cidOf(eventLines[hi]) == last {
				hi++
			}
		}
		spans = append(spans, span{lo, hi, cidOf(eventLines[lo]), cidOf(eventLines[hi-1])})
		lo = hi
	}
	nShards = len(spans)
	type shardRes struct {
		res      *tlc.Result
		verdicts []verdict
		counts   map[string]int
		err      error
	}
	results := make([]shardRes, nShards)
	var wg sync.WaitGroup
	t2 := time.Now()
	sem := make(chan struct{}, 12)
	for s := 0; s < nShards; s++ {
		lo, hi := spans[s].lo, spans[s].hi
		cidLo, cidHi := spans[s].cidLo, spans[s].cidHi
		if cidLo < 1 {
			cidLo = 1
		}
		wg.Add(1)
		go func(s, lo, hi int) {
			defer wg.Done()
			sem <- struct{}{}
			defer func() { <-sem }()
			dir := filepath.Join(work, fmt.Sprintf("judge%d", s))
			_ = os.MkdirAll(dir, 0o755)
			casesPath := filepath.Join(dir, "cases.ndjson")
			if err := writeNDJSON(casesPath, cidHi-cidLo+1, func(i int) interface{} { return run.cases[cidLo-1+i] }); err != nil {
				results[s].err = err
				return
			}
			ep := filepath.Join(dir, "events.ndjson")
			f, err := os.Create(ep)
			if err != nil {
				results[s].err = err
				return
			}
			w := bufio.NewWriter(f)
			for _, ln := range eventLines[lo:hi] {
				w.Write(ln)
				w.WriteByte('\n')
			}
			w.Flush()
			f.Close()
			cfg := fmt.Sprintf("CONSTANTS\n  Prop = %q\n  Devs = %s\n  CidBase = %d\nSPECIFICATION Spec\nINVARIANT Done\nPOSTCONDITION TraceAccepted\nCHECK_DEADLOCK FALSE\n",
				sp.JudgeProp, tlaSet(devs), cidLo-1)
			r := &tlc.Run{SpecDir: specDir, Scratch: dir, Module: "Trace_Wire", Cfg: cfg, Workers: 1, Timeout: 30 * time.Minute,
				Files: map[string]string{"schemas.ndjson": schemasPath},
				OnLine: func(tag, js string) {
					switch tag {
					case "V":
						var v verdict
						if err := json.Unmarshal([]byte(js), &v); err == nil {
							v.L += lo
							results[s].verdicts = append(results[s].verdicts, v)
						}
					case "COUNTS":
						m := map[string]int{}
						_ = json.Unmarshal([]byte(js), &m)
						results[s].counts = m
					}
				}}
			// events.ndjson already lies in dir; do not overwrite
			res, err := r.Exec()
			results[s].res = res
			results[s].err = err
			if err == nil && res.Violated != "" {
				results[s].err = fmt.Errorf("trace spec did not accept the trace: %s\n%s", res.Violated, strings.Join(res.Tail, "\n"))
			}
			if err == nil && results[s].counts == nil {
				results[s].err = fmt.Errorf("trace spec printed no counts\n%s", strings.Join(res.Tail, "\n"))
			}
		}(s, lo, hi)
	}
	wg.Wait()
	judgeSecs := time.Since(t2).Seconds()
	states, transitions := gr.Distinct, gr.Generated
	total := map[string]int{}
	var verdicts []verdict
	for s := range results {
		if results[s].err != nil {
			return nil, 2, infra("judge shard %d: %v", s, results[s].err)
		}
		if results[s].res == nil {
			continue
		}
		states += results[s].res.Distinct
		transitions += results[s].res.Generated
		for k, v := range results[s].counts {
			total[k] += v
		}
		verdicts = append(verdicts, results[s].verdicts...)
	}
	if total["ok"]+total["na"]+total["known"]+total["viol"] != nEvents {
		return nil, 2, infra("judge consumed %d of %d events", total["ok"]+total["na"]+total["known"]+total["viol"], nEvents)
	}
	// 4b. C05: the design model under all fragmentations, and the read-level traces against StreamAbs
	streamCov := map[string]interface{}{}
	if sp.Op == "stream" {
		mc := &tlc.Run{SpecDir: specDir, Scratch: filepath.Join(work, "streammc"), Module: "StreamCodec", Workers: 16, Timeout: 20 * time.Minute,
			Cfg: fmt.Sprintf("CONSTANTS\n  Tier = %q\n  Seed = %d\nSPECIFICATION Spec\nINVARIANTS NoOverAsk ExactConsumption FaultSurfaces\nPROPERTIES ReturnAtEnd RefinesAbs Terminates\nCHECK_DEADLOCK FALSE\n", c.Tier, c.Seed)}
		mr, err := mc.Exec()
		if err != nil {
			return nil, 2, infra("StreamCodec model check: %v", err)
		}
		if mr.Violated != "" {
			return nil, 2, infra("StreamCodec.tla violates %s on the ideal design (spec bug):\n%s", mr.Violated, strings.Join(mr.Tail, "\n"))
		}
		states += mr.Distinct
		transitions += mr.Generated
		streamCov["streamcodec_model_states"] = mr.Distinct
		streamCov["streamcodec_properties"] = []string{"NoOverAsk", "ExactConsumption", "FaultSurfaces", "ReturnAtEnd", "RefinesAbs (StreamAbs)", "Terminates (WF)"}
		// read-level traces
		nsh := 8
		per := (len(streamLines) + nsh - 1) / nsh
		type sres struct {
			res *tlc.Result
			bad []json.RawMessage
			cnt map[string]int
			err error
		}
		srs := make([]sres, nsh)
		var swg sync.WaitGroup
		lo := 0
		for sh := 0; sh < nsh && lo < len(streamLines); sh++ {
			hi := lo + per
			if hi > len(streamLines) {
				hi = len(streamLines)
			}
			// extend to the end of the stream in progress
			for hi < len(streamLines) && !bytes.HasPrefix(streamLines[hi], []byte(`{"ev":"sbegin"`)) {
				hi++
			}
			swg.Add(1)
			go func(sh, lo, hi int) {
				defer swg.Done()
				dir := filepath.Join(work, fmt.Sprintf("sjudge%d", sh))
				_ = os.MkdirAll(dir, 0o755)
				f, err := os.Create(filepath.Join(dir, "sevents.ndjson"))
				if err != nil {
					srs[sh].err = err
					return
				}
				w := bufio.NewWriter(f)
				for _, ln := range streamLines[lo:hi] {
					w.Write(ln)
					w.WriteByte('\n')
				}
				w.Flush()
				f.Close()
				r := &tlc.Run{SpecDir: specDir, Scratch: dir, Module: "Trace_Stream", Workers: 1, Timeout: 20 * time.Minute,
					Cfg: "SPECIFICATION Spec\nINVARIANT Done\nPOSTCONDITION TraceAccepted\nCHECK_DEADLOCK FALSE\n",
					OnLine: func(tag, js string) {
						switch tag {
						case "SV":
							srs[sh].bad = append(srs[sh].bad, json.RawMessage(js))
						case "SCOUNTS":
							m := map[string]int{}
							_ = json.Unmarshal([]byte(js), &m)
							srs[sh].cnt = m
						}
					}}
				res, err := r.Exec()
				srs[sh].res = res
				srs[sh].err = err
				if err == nil && res.Violated != "" {
					srs[sh].err = fmt.Errorf("Trace_Stream did not consume the trace: %s\n%s", res.Violated, strings.Join(res.Tail, "\n"))
				}
				if err == nil && srs[sh].cnt == nil {
					srs[sh].err = fmt.Errorf("Trace_Stream printed no counts\n%s", strings.Join(res.Tail, "\n"))
				}
			}(sh, lo, hi)
			lo = hi
		}
		swg.Wait()
		nStreams, nBadStreams, nSEvents := 0, 0, 0
		for sh := range srs {
			if srs[sh].err != nil {
				return nil, 2, infra("stream trace shard %d: %v", sh, srs[sh].err)
			}
			if srs[sh].res == nil {
				continue
			}
			states += srs[sh].res.Distinct
			transitions += srs[sh].res.Generated
			nStreams += srs[sh].cnt["streams"]
			nBadStreams += srs[sh].cnt["bad"]
			nSEvents += srs[sh].cnt["events"]
			for _, b := range srs[sh].bad {
				var sv struct {
					Cid int `json:"cid"`
				}
				_ = json.Unmarshal(b, &sv)
				cs := run.cases[sv.Cid-1]
				s := run.schemas[bySid[cs.Sid]]
				c.Violation(fmt.Sprintf("read-level trace of DecodeBebop is not a behaviour of StreamAbs (reads beyond the record, or asks when the record is exhausted, or returns early) [shape %s in %s]", s.Tag, s.Ctx),
					map[string]interface{}{"kind": "wire", "op": sp.Op, "judge": sp.JudgeProp, "schema_text": plans[cs.Pid].Text, "defs": s.Defs, "opts": cs.Opts,
						"root": cs.Root, "v": cs.V, "ref": cs.Enc, "seq": cs.Seq, "seqenc": cs.SeqEnc, "scheds": cs.Scheds, "rejected_event": b})
			}
		}
		if nSEvents != len(streamLines) {
			return nil, 2, infra("stream trace validation consumed %d of %d events", nSEvents, len(streamLines))
		}
		streamCov["read_level_streams_validated"] = nStreams
		streamCov["read_level_events"] = nSEvents
		streamCov["read_level_streams_rejected"] = nBadStreams
		total["ok"] += nStreams - nBadStreams
	}
	// 5. verdicts
	seenViol := map[string]bool{}
	whyCount := map[string]int{}
	whyShapes := map[string]map[string]bool{}
	sort.Slice(verdicts, func(i, j int) bool { return verdicts[i].L < verdicts[j].L })
	for _, v := range verdicts {
		cs := run.cases[v.Cid-1]
		s := run.schemas[bySid[cs.Sid]]
		switch v.Verdict {
		case "KNOWN":
			c.Known(v.Dev)
		case "VIOLATION":
			whyCount[v.Why]++
			if whyShapes[v.Why] == nil {
				whyShapes[v.Why] = map[string]bool{}
			}
			whyShapes[v.Why][s.Tag+" in "+s.Ctx] = true
			key := v.Why
			if seenViol[key] && c.violations > 0 {
				c.violations++
				continue
			}
			seenViol[key] = true
			var ev json.RawMessage = eventLines[v.L-1]
			c.Violation(fmt.Sprintf("%s [shape %s in %s, options %v]", v.Why, s.Tag, s.Ctx, cs.Opts), map[string]interface{}{
				"kind": "wire", "op": sp.Op, "judge": sp.JudgeProp, "schema_text": plans[cs.Pid].Text, "defs": s.Defs, "opts": cs.Opts,
				"root": cs.Root, "v": cs.V, "ref": cs.Enc, "inputs": cs.Inputs, "errs": sp.Errs, "event": ev,
				"wirecase": cs, "wireschema": s, "gen_module": sp.GenModule, "force_opts": sp.ForceOpts,
			})
		}
	}
	for why, n := range whyCount {
		var shapes []string
		for sh := range whyShapes[why] {
			shapes = append(shapes, sh)
		}
		sort.Strings(shapes)
		if len(shapes) > 6 {
			shapes = append(shapes[:6], fmt.Sprintf("... (%d shapes)", len(whyShapes[why])))
		}
		fmt.Printf("  violation class: %q x%d in %v\n", why, n, shapes)
	}
	// evidence
	nontrivial := 0
	for _, cs := range run.cases {
		if sp.Nontrivial == nil || sp.Nontrivial(run.schemas[bySid[cs.Sid]], cs) {
			nontrivial++
		}
	}
	var samples []interface{}
	for i := 0; i < len(run.cases) && len(samples) < 3; i += 1 + len(run.cases)/3 {
		cs := run.cases[i]
		samples = append(samples, map[string]interface{}{"schema": plans[cs.Pid].Text, "options": cs.Opts, "value": cs.V, "reference_bytes": cs.Enc,
			"first_event": json.RawMessage(firstEventOf(eventLines, i+1))})
	}
	cov := Coverage{
		"states":                        states,
		"transitions":                   transitions,
		"traces_validated_against_impl": total["ok"] + total["known"],
		"events_not_applicable":         total["na"],
		"events_total":                  nEvents,
		"samples":                       samples,
		"evaluations":                   nEvents,
		"distinct_nontrivial":           nontrivial,
		"rule":                          sp.Rule,
		"cases":                         len(run.cases),
		"cases_executed":                executed,
		"schemas":                       len(run.schemas),
		"packages_generated":            len(planList),
		"packages_rejected":             rejected,
		"packages_split_into_separately_generated_imports": nSplit,
		"packages_uncompilable":                            uncompilable,
		"inputs_skipped_predicted_known":                   predictedSkipped,
		"worker_crashes":                                   st.Crashes,
		"worker_ooms":                                      st.OOMs,
		"worker_timeouts":                                  st.Timeouts,
		"commands_skipped_after_crash":                     st.Skipped,
		"gen_model_states":                                 gr.Distinct,
		"design_theorems_checked":                          sp.GenInvs,
		"open_deviations":                                  devs,
		"exhaustive":                                       false,
		"phase_seconds":                                    map[string]float64{"gen_tlc": gr.Elapsed.Seconds(), "generate_build": buildSecs, "execute": execSecs, "judge_tlc": judgeSecs},
	}
	for k, v := range streamCov {
		cov[k] = v
	}
	return cov, 0, nil
}

func firstEventOf(lines [][]byte, cid int) []byte {
	needle := fmt.Sprintf(`"cid":%d,`, cid)
	for _, l := range lines {
		if strings.Contains(string(l), needle) {
			return l
		}
	}
	return []byte("null")
}

func cidOf(line []byte) int {
	i := bytes.Index(line, []byte(`"cid":`))
	if i < 0 {
		return 0
	}
	n := 0
	for _, ch := range line[i+6:] {
		if ch < '0' || ch > '9' {
			break
		}
		n = n*10 + int(ch-'0')
	}
	return n
}

// ReplayWire re-executes the single case of a wire replay file against the current tree and judges it again.
func ReplayWire(c *Ctx, raw map[string]json.RawMessage) (int, error) {
	var cs wireCase
	var sch wireSchema
	var op, judge, genModule string
	var errs, forceOpts []string
	if err := json.Unmarshal(raw["wirecase"], &cs); err != nil {
		return 2, infra("replay file has no wire case: %v", err)
	}
	if err := json.Unmarshal(raw["wireschema"], &sch); err != nil {
		return 2, infra("replay file has no schema: %v", err)
	}
	_ = json.Unmarshal(raw["op"], &op)
	_ = json.Unmarshal(raw["judge"], &judge)
	_ = json.Unmarshal(raw["errs"], &errs)
	_ = json.Unmarshal(raw["gen_module"], &genModule)
	_ = json.Unmarshal(raw["force_opts"], &forceOpts)
	sp := &WireSpec{GenModule: genModule, Op: op, Errs: errs, JudgeProp: judge, DevProps: []string{c.Prop}, Level: "model_checking",
		Rule: "replay of one recorded case", replaySchema: &sch, replayCase: &cs, ForceOpts: forceOpts}
	if op == "decref" || op == "rfault" && genModule == "Gen_Evolve" {
		sp.DevProps = []string{c.Prop, "C04"}
	}
	cov, code, err := runWirePart(c, c.Work, sp)
	if err != nil || code == 2 {
		return code, err
	}
	_ = cov
	if c.violations > 0 {
		fmt.Printf("replay: the case still violates %s\n", c.Prop)
		return 1, nil
	}
	fmt.Printf("replay: the case no longer violates %s on the current tree\n", c.Prop)
	return 0, nil
}

func hasOpt(opts []string, o string) bool {
	for _, x := range opts {
		if x == o {
			return true
		}
	}
	return false
}
