// Package ast renders the token streams of spec/BebopSchema.tla to .bop text
// under a layout, and exports the File returned by the real ReadFile in the
// canonical JSON shape of BebopSchema!FileOf. It contains no parser.
package ast

import (
	"sort"
	"strings"

	"github.com/200sc/bebop"
)

type Layout struct {
	Name      string
	Sep       string // between ordinary tokens
	Tight     bool   // no separator next to punctuation
	Soft      string // "line" | "blank" | "space" | "none"
	NL        string
	Indent    bool
	NoFinalNL bool // the text ends with its last token
	JoinTop   bool // nothing but a space between a definition's closing brace and what follows it
	// BreakAfterReadonly puts "readonly" on a line of its own. The pinned parser rejects that; the property does not say
	// whether it is well-formed. Texts in such a layout may be rejected (Unspecified) - if they are accepted, everything
	// the properties say about accepted texts applies to them.
	BreakAfterReadonly bool
	Unspecified        bool
}

var Layouts = []Layout{
	{Name: "std", Sep: " ", Soft: "line", NL: "\n", Indent: true},
	{Name: "crlf", Sep: " ", Soft: "line", NL: "\r\n", Indent: true},
	{Name: "oneline", Sep: " ", Soft: "space", NL: "\n", NoFinalNL: true},
	{Name: "airy", Sep: " \t ", Soft: "blank", NL: "\n", Indent: true},
	{Name: "tight", Sep: " ", Tight: true, Soft: "none", NL: "\n", NoFinalNL: true},
	{Name: "gappy", Sep: "  ", Soft: "gaps", NL: "\n", Indent: false}, // three empty lines wherever an empty line may go
	{Name: "joined", Sep: " ", Soft: "line", NL: "\n", Indent: true, JoinTop: true, NoFinalNL: true},
	{Name: "readonly-own-line", Sep: " ", Soft: "line", NL: "\n", Indent: true, BreakAfterReadonly: true, Unspecified: true}, // bodies on several lines, the next definition on the line of the closing brace
}

func isPunct(t string) bool {
	switch t {
	case "[", "]", "(", ")", ",", ";", ":", "->", "=", "{", "}", "|", "&", "<<", ">>":
		return true
	}
	return false
}

// Render joins tokens under the layout. Special tokens: "\n" mandatory line
// break, "~" soft break, "^" soft single line break.
func Render(tokens []string, l Layout) string {
	var b strings.Builder
	depth := 0
	prev := "" // previous ordinary token
	atLineStart := true
	pendingBreak := 0 // 0 none, 1 line, 2 blank
	for _, t := range tokens {
		switch t {
		case "\n":
			if pendingBreak < 1 {
				pendingBreak = 1
			}
			continue
		case "<ro>":
			if l.BreakAfterReadonly && pendingBreak < 1 {
				pendingBreak = 1
			}
			continue
		case "#":
			// between definitions
			if l.JoinTop {
				continue
			}
			switch l.Soft {
			case "line":
				if pendingBreak < 1 {
					pendingBreak = 1
				}
			case "blank":
				pendingBreak = 2
			case "gaps":
				pendingBreak = 4
			}
			continue
		case "~", "^", "%":
			switch l.Soft {
			case "line":
				if pendingBreak < 1 {
					pendingBreak = 1
				}
			case "blank", "gaps":
				if t == "~" || t == "%" {
					pendingBreak = 2
					if l.Soft == "gaps" {
						pendingBreak = 4
					}
				} else if pendingBreak < 1 {
					pendingBreak = 1
				}
			}
			continue
		}
		if t == "}" && depth > 0 {
			depth--
		}
		if pendingBreak > 0 && b.Len() > 0 {
			for i := 0; i < pendingBreak; i++ {
				b.WriteString(l.NL)
			}
			atLineStart = true
		}
		pendingBreak = 0
		if atLineStart {
			if l.Indent {
				b.WriteString(strings.Repeat("\t", depth))
			}
		} else {
			if !(l.Tight && (isPunct(prev) || isPunct(t))) {
				b.WriteString(l.Sep)
			}
		}
		b.WriteString(t)
		atLineStart = false
		prev = t
		if t == "{" {
			depth++
		}
	}
	if !l.NoFinalNL {
		b.WriteString(l.NL)
	}
	return b.String()
}

var prims = map[string]bool{"bool": true, "byte": true, "uint8": true, "uint16": true, "int16": true, "uint32": true, "int32": true,
	"uint64": true, "int64": true, "float32": true, "float64": true, "string": true, "guid": true, "date": true}

func typeOf(ft bebop.FieldType) map[string]interface{} {
	if ft.Array != nil {
		return map[string]interface{}{"k": "a", "e": typeOf(*ft.Array)}
	}
	if ft.Map != nil {
		return map[string]interface{}{"k": "m", "key": ft.Map.Key, "v": typeOf(ft.Map.Value)}
	}
	if prims[ft.Simple] {
		return map[string]interface{}{"k": "p", "p": ft.Simple}
	}
	return map[string]interface{}{"k": "r", "n": ft.Simple}
}

func le(n uint64, w int) []int {
	out := make([]int, w)
	for i := range out {
		out[i] = int(n % 256)
		n /= 256
	}
	return out
}

func tagsOf(tags []bebop.Tag) []interface{} {
	out := []interface{}{}
	for _, t := range tags {
		out = append(out, map[string]interface{}{"key": t.Key, "value": t.Value, "boolean": t.Boolean})
	}
	return out
}

func fieldOf(f bebop.Field, idx int) map[string]interface{} {
	return map[string]interface{}{"name": f.Name, "t": typeOf(f.FieldType), "idx": idx, "dep": f.Deprecated, "depmsg": f.DeprecatedMessage,
		"doc": f.Comment, "tags": tagsOf(f.Tags)}
}

func structOf(s bebop.Struct) map[string]interface{} {
	fs := []interface{}{}
	for _, f := range s.Fields {
		fs = append(fs, fieldOf(f, 0))
	}
	return map[string]interface{}{"kind": "struct", "name": s.Name, "ro": s.ReadOnly, "opcode": le(uint64(s.OpCode), 4), "doc": s.Comment, "fields": fs}
}

func messageOf(m bebop.Message) map[string]interface{} {
	var idx []int
	for i := range m.Fields {
		idx = append(idx, int(i))
	}
	sort.Ints(idx)
	fs := []interface{}{}
	for _, i := range idx {
		fs = append(fs, fieldOf(m.Fields[uint8(i)], i))
	}
	return map[string]interface{}{"kind": "message", "name": m.Name, "opcode": le(uint64(m.OpCode), 4), "doc": m.Comment, "fields": fs}
}

var widths = map[string]int{"byte": 1, "uint8": 1, "uint16": 2, "int16": 2, "uint32": 4, "int32": 4, "uint64": 8, "int64": 8}

// FileOf exports f in the shape of BebopSchema!FileOf.
func FileOf(f bebop.File) map[string]interface{} {
	imports := []interface{}{}
	for _, i := range f.Imports {
		imports = append(imports, i)
	}
	consts := []interface{}{}
	for _, c := range f.Consts {
		consts = append(consts, map[string]interface{}{"kind": "const", "t": c.SimpleType, "name": c.Name, "value": c.Value, "doc": c.Comment})
	}
	enums := []interface{}{}
	for _, e := range f.Enums {
		opts := []interface{}{}
		w := widths[e.SimpleType]
		for _, o := range e.Options {
			v := o.UintValue
			if !e.Unsigned {
				v = uint64(o.Value)
			}
			opts = append(opts, map[string]interface{}{"name": o.Name, "val": le(v, w), "dep": o.Deprecated, "depmsg": o.DeprecatedMessage, "doc": o.Comment})
		}
		enums = append(enums, map[string]interface{}{"kind": "enum", "name": e.Name, "base": e.SimpleType, "unsigned": e.Unsigned, "doc": e.Comment, "options": opts})
	}
	structs := []interface{}{}
	for _, s := range f.Structs {
		structs = append(structs, structOf(s))
	}
	messages := []interface{}{}
	for _, m := range f.Messages {
		messages = append(messages, messageOf(m))
	}
	unions := []interface{}{}
	for _, u := range f.Unions {
		var idx []int
		for i := range u.Fields {
			idx = append(idx, int(i))
		}
		sort.Ints(idx)
		brs := []interface{}{}
		for _, i := range idx {
			uf := u.Fields[uint8(i)]
			var def map[string]interface{}
			if uf.Struct != nil {
				def = structOf(*uf.Struct)
			} else if uf.Message != nil {
				def = messageOf(*uf.Message)
			}
			brs = append(brs, map[string]interface{}{"idx": i, "dep": uf.Deprecated, "depmsg": uf.DeprecatedMessage, "def": def})
		}
		unions = append(unions, map[string]interface{}{"kind": "union", "name": u.Name, "opcode": le(uint64(u.OpCode), 4), "doc": u.Comment, "branches": brs})
	}
	return map[string]interface{}{"imports": imports, "consts": consts, "enums": enums, "structs": structs, "messages": messages, "unions": unions}
}
