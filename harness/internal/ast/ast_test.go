package ast

import (
	"fmt"
	"testing"
)

func TestRender(t *testing.T) {
	toks := []string{"~", "// doc", "\n", "[", "opcode", "(", "0x1", ")", "]", "^", "struct", "S", "{", "~", "int32", "a", ";", "~", "/* b */", "^", "map", "[", "string", ",", "byte", "[", "]", "]", "m", ";", "// trail", "\n", "~", "}", "\n", "~", "enum", "E", ":", "int64", "{", "~", "A", "=", "-1", ";", "~", "}", "\n"}
	for _, l := range Layouts {
		fmt.Printf("--- %s\n%s", l.Name, Render(toks, l))
	}
}
