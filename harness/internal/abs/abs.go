// Package abs holds the abstract syntax shared with the TLA+ specification
// (spec/BebopWire.tla): types, definitions, schemas, and the renderer from an
// abstract schema to .bop text. It contains no codec.
package abs

import (
	"fmt"
	"math/big"
	"strings"
)

// Type mirrors the TLA+ type records.
type Type struct {
	K   string `json:"k"`
	P   string `json:"p,omitempty"`
	E   *Type  `json:"e,omitempty"`
	Key string `json:"key,omitempty"`
	V   *Type  `json:"v,omitempty"`
	N   string `json:"n,omitempty"`
}

type Field struct {
	Name string `json:"name"`
	T    Type   `json:"t"`
	Idx  int    `json:"idx,omitempty"`
	Dep  bool   `json:"dep,omitempty"`
}

type Member struct {
	Name string `json:"name"`
	Val  []int  `json:"val"`
}

type BranchRef struct {
	Idx int    `json:"idx"`
	N   string `json:"n"`
}

type Def struct {
	Name     string      `json:"name"`
	Kind     string      `json:"kind"`
	Base     string      `json:"base,omitempty"`
	Members  []Member    `json:"members,omitempty"`
	Ro       bool        `json:"ro,omitempty"`
	Fields   []Field     `json:"fields,omitempty"`
	Branches []BranchRef `json:"branches,omitempty"`
	Inner    string      `json:"inner,omitempty"`
	Opcode   string      `json:"opcode,omitempty"`
}

type Schema []Def

func (s Schema) Def(name string) *Def {
	for i := range s {
		if s[i].Name == name {
			return &s[i]
		}
	}
	return nil
}

var PrimWidth = map[string]int{
	"bool": 1, "byte": 1, "uint8": 1, "uint16": 2, "int16": 2, "uint32": 4, "int32": 4,
	"uint64": 8, "int64": 8, "float32": 4, "float64": 8, "guid": 16, "date": 8,
}

func Signed(base string) bool { return strings.HasPrefix(base, "int") }

// IntText renders a little-endian byte value of an integer base type as the
// decimal text a schema author would write.
func IntText(base string, le []int) string {
	n := new(big.Int)
	for i := len(le) - 1; i >= 0; i-- {
		n.Lsh(n, 8)
		n.Or(n, big.NewInt(int64(le[i])))
	}
	if Signed(base) && len(le) > 0 && le[len(le)-1] >= 128 {
		m := new(big.Int).Lsh(big.NewInt(1), uint(8*len(le)))
		n.Sub(n, m)
	}
	return n.String()
}

func TypeText(t Type) string {
	switch t.K {
	case "p":
		return t.P
	case "a":
		return TypeText(*t.E) + "[]"
	case "m":
		return "map[" + t.Key + ", " + TypeText(*t.V) + "]"
	case "r":
		return t.N
	}
	panic("bad type kind " + t.K)
}

func renderDef(b *strings.Builder, s Schema, d *Def, ind string) {
	switch d.Kind {
	case "enum":
		if d.Base == "uint32" {
			fmt.Fprintf(b, "%senum %s {\n", ind, d.Name)
		} else {
			fmt.Fprintf(b, "%senum %s : %s {\n", ind, d.Name, d.Base)
		}
		for _, m := range d.Members {
			fmt.Fprintf(b, "%s\t%s = %s;\n", ind, m.Name, IntText(d.Base, m.Val))
		}
		fmt.Fprintf(b, "%s}\n", ind)
	case "struct":
		ro := ""
		if d.Ro {
			ro = "readonly "
		}
		fmt.Fprintf(b, "%s%sstruct %s {\n", ind, ro, d.Name)
		for _, f := range d.Fields {
			fmt.Fprintf(b, "%s\t%s %s;\n", ind, TypeText(f.T), f.Name)
		}
		fmt.Fprintf(b, "%s}\n", ind)
	case "message":
		fmt.Fprintf(b, "%smessage %s {\n", ind, d.Name)
		for _, f := range d.Fields {
			if f.Dep {
				fmt.Fprintf(b, "%s\t[deprecated(\"old\")]\n", ind)
			}
			fmt.Fprintf(b, "%s\t%d -> %s %s;\n", ind, f.Idx, TypeText(f.T), f.Name)
		}
		fmt.Fprintf(b, "%s}\n", ind)
	case "union":
		fmt.Fprintf(b, "%sunion %s {\n", ind, d.Name)
		for _, br := range d.Branches {
			bd := s.Def(br.N)
			var ib strings.Builder
			renderDef(&ib, s, bd, ind+"\t")
			body := strings.TrimPrefix(ib.String(), ind+"\t")
			fmt.Fprintf(b, "%s\t%d -> %s", ind, br.Idx, body)
		}
		fmt.Fprintf(b, "%s}\n", ind)
	default:
		panic("bad def kind " + d.Kind)
	}
}

// Render writes the schema as .bop text. Definitions appear in sequence
// order; definitions with Inner set are written inside their union.
func Render(s Schema) string {
	var b strings.Builder
	for i := range s {
		d := &s[i]
		if d.Inner != "" {
			continue
		}
		if d.Opcode != "" {
			fmt.Fprintf(&b, "[opcode(%s)]\n", d.Opcode)
		}
		renderDef(&b, s, d, "")
	}
	return b.String()
}

// RenderSplit renders the schema as two files: the record "Root" (with the records defined inline in it, if it is
// a union) in the root file, every other definition in a file the root imports. ok is false when there is nothing
// to move to the imported file.
func RenderSplit(s Schema, rootPkg, depPkg string) (root, dep string, ok bool) {
	var rb, db strings.Builder
	n := 0
	for i := range s {
		d := &s[i]
		if d.Inner != "" {
			continue
		}
		b := &db
		if d.Name == "Root" {
			b = &rb
		} else {
			n++
		}
		if d.Opcode != "" {
			fmt.Fprintf(b, "[opcode(%s)]\n", d.Opcode)
		}
		renderDef(b, s, d, "")
	}
	if n == 0 || rb.Len() == 0 {
		return "", "", false
	}
	root = "import \"./dep.bop\"\nconst string go_package = \"" + rootPkg + "\";\n" + rb.String()
	dep = "const string go_package = \"" + depPkg + "\";\n" + db.String()
	return root, dep, true
}
