// Package sup supervises sandboxed worker processes: it feeds them commands,
// collects their observations, and turns crashes, memory exhaustion and hangs
// into observations attributed to the in-flight operation.
package sup

import (
	"bufio"
	"bytes"
	"encoding/json"
	"fmt"
	"io"
	"os/exec"
	"strconv"
	"strings"
	"sync"
	"syscall"
	"time"
)

type Config struct {
	Worker    string // worker binary
	PkgFile   string // packages.ndjson
	Procs     int
	MemKB     int           // ulimit -v
	OpTimeout time.Duration // watchdog per micro-op
	Resumable map[string]bool
	MaxFatal  int // stop feeding commands after this many crashes+timeouts+ooms (default 120)
}

// Cmd mirrors workerlib.Cmd loosely: raw JSON with the few fields the supervisor needs.
type Cmd struct {
	Cid  int
	Op   string
	JSON map[string]interface{}
}

type Stats struct {
	Crashes  int
	Timeouts int
	OOMs     int
	Skipped  int
}

type proc struct {
	cmd    *exec.Cmd
	stdin  io.WriteCloser
	lines  chan string
	stderr *bytes.Buffer
	done   chan struct{}
}

func start(cfg *Config) (*proc, error) {
	sh := fmt.Sprintf("ulimit -v %d; exec %s %s", cfg.MemKB, cfg.Worker, cfg.PkgFile)
	c := exec.Command("sh", "-c", sh)
	c.SysProcAttr = &syscall.SysProcAttr{Setpgid: true, Pdeathsig: syscall.SIGKILL}
	stdin, err := c.StdinPipe()
	if err != nil {
		return nil, err
	}
	stdout, err := c.StdoutPipe()
	if err != nil {
		return nil, err
	}
	p := &proc{cmd: c, stdin: stdin, lines: make(chan string, 1024), stderr: &bytes.Buffer{}, done: make(chan struct{})}
	c.Stderr = p.stderr
	if err := c.Start(); err != nil {
		return nil, err
	}
	go func() {
		r := bufio.NewReaderSize(stdout, 1<<20)
		for {
			line, err := r.ReadString('\n')
			if len(line) > 0 {
				p.lines <- strings.TrimRight(line, "\n")
			}
			if err != nil {
				break
			}
		}
		close(p.lines)
	}()
	return p, nil
}

func (p *proc) kill() {
	if p.cmd.Process != nil {
		_ = syscall.Kill(-p.cmd.Process.Pid, syscall.SIGKILL)
	}
	_ = p.cmd.Wait()
}

// Run executes all commands and calls onEvent (serialised) for every observation line (JSON).
func Run(cfg *Config, cmds []*Cmd, onEvent func(cid int, line []byte)) (*Stats, error) {
	if cfg.Procs <= 0 {
		cfg.Procs = 8
	}
	if cfg.MemKB == 0 {
		cfg.MemKB = 3000000
	}
	if cfg.MaxFatal == 0 {
		cfg.MaxFatal = 120
	}
	if cfg.OpTimeout == 0 {
		cfg.OpTimeout = 10 * time.Second
	}
	st := &Stats{}
	var mu sync.Mutex
	var firstErr error
	work := make(chan *Cmd, len(cmds))
	for _, c := range cmds {
		work <- c
	}
	close(work)
	var wg sync.WaitGroup
	for i := 0; i < cfg.Procs; i++ {
		wg.Add(1)
		go func() {
			defer wg.Done()
			var p *proc
			defer func() {
				if p != nil {
					p.stdin.Close()
					p.kill()
				}
			}()
			for c := range work {
				// after many fatal outcomes (a decoder that hangs on most inputs) the rest adds nothing but hours
				mu.Lock()
				tooMany := st.Crashes+st.Timeouts+st.OOMs > cfg.MaxFatal
				if tooMany {
					st.Skipped++
				}
				mu.Unlock()
				if tooMany {
					continue
				}
				from := 0
				attempts := 0
				for {
					attempts++
					if attempts > 400 {
						mu.Lock()
						st.Skipped++
						mu.Unlock()
						break
					}
					if p == nil {
						var err error
						p, err = start(cfg)
						if err != nil {
							mu.Lock()
							if firstErr == nil {
								firstErr = err
							}
							mu.Unlock()
							return
						}
					}
					c.JSON["from"] = from
					b, _ := json.Marshal(c.JSON)
					b = append(b, '\n')
					if _, err := p.stdin.Write(b); err != nil {
						p.kill()
						p = nil
						continue
					}
					finished := false
					curM := -1
					curDesc := ""
					reason := ""
					timer := time.NewTimer(cfg.OpTimeout)
				loop:
					for {
						select {
						case line, ok := <-p.lines:
							if !ok {
								reason = "crash"
								break loop
							}
							// the watchdog measures one micro-operation: only its begin marker re-arms it
							if strings.HasPrefix(line, "#B ") || strings.HasPrefix(line, "#E ") {
								if !timer.Stop() {
									select {
									case <-timer.C:
									default:
									}
								}
								timer.Reset(cfg.OpTimeout)
							}
							if strings.HasPrefix(line, "#B ") {
								f := strings.SplitN(line, " ", 4)
								if len(f) >= 3 {
									curM, _ = strconv.Atoi(f[2])
									if len(f) == 4 {
										curDesc = f[3]
									}
								}
								continue
							}
							if strings.HasPrefix(line, "#E ") {
								finished = true
								break loop
							}
							if strings.HasPrefix(line, "{") {
								curMdone := curM
								_ = curMdone
								mu.Lock()
								onEvent(c.Cid, []byte(line))
								mu.Unlock()
								curM = -1
							}
						case <-timer.C:
							reason = "timeout"
							break loop
						}
					}
					timer.Stop()
					if finished {
						break
					}
					// the worker died or hung: attribute to the in-flight micro-op
					p.kill()
					if reason == "crash" {
						se := p.stderr.String()
						if strings.Contains(se, "out of memory") || strings.Contains(se, "cannot allocate memory") {
							reason = "oom"
						} else if strings.Contains(se, "stack overflow") || strings.Contains(se, "stack exceeds") {
							reason = "stackoverflow"
						}
					}
					tail := p.stderr.String()
					if len(tail) > 300 {
						tail = tail[:300]
					}
					p = nil
					mu.Lock()
					switch reason {
					case "timeout":
						st.Timeouts++
					case "oom":
						st.OOMs++
					default:
						st.Crashes++
					}
					ev := map[string]interface{}{}
					if curDesc != "" {
						_ = json.Unmarshal([]byte(curDesc), &ev)
					}
					if _, ok := ev["ev"]; !ok {
						ev["ev"] = "fatal"
					}
					ev["cid"] = c.Cid
					ev["m"] = curM
					ev["res"] = reason
					ev["msg"] = tail
					ev["big"] = reason == "oom"
					ev["fatal"] = true
					eb, _ := json.Marshal(ev)
					onEvent(c.Cid, eb)
					mu.Unlock()
					mu.Lock()
					over := st.Crashes+st.Timeouts+st.OOMs > cfg.MaxFatal
					mu.Unlock()
					if curM >= 0 && cfg.Resumable[c.Op] && !over {
						from = curM + 1
						continue
					}
					mu.Lock()
					st.Skipped++
					mu.Unlock()
					break
				}
			}
		}()
	}
	wg.Wait()
	return st, firstErr
}
