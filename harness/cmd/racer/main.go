// Command racer is built with -race from /repo's working tree. It calls one
// entry point of 200sc/bebop concurrently from several goroutines sharing one
// File value and reports whether all results are identical and whether the
// caller's File (including the hidden capacity of its slices) is unchanged.
// The race detector's report goes to stderr (exit status 66).
package main

import (
	"bytes"
	"crypto/sha256"
	"encoding/hex"
	"encoding/json"
	"fmt"
	"os"
	"reflect"
	"strings"
	"sync"

	"github.com/200sc/bebop"

	"verif/harness/internal/ast"
)

type scenario struct {
	Root       string     `json:"root"`  // path of the root .bop file
	API        string     `json:"api"`   // Generate | Validate | Format | ReadFile
	Opts       []string   `json:"opts"`  // generator options
	Mode       string     `json:"mode"`  // separate | combined
	Spare      int        `json:"spare"` // spare capacity given to each slice of the File
	Goroutines int        `json:"goroutines"`
	Repeat     int        `json:"repeat"`
	Pre        [][]string `json:"pre"`      // option sets Generate is called with, sequentially, before the measured calls (history)
	PreFiles   []string   `json:"prefiles"` // other schemas read and generated before the measured calls (history across Files)
	// an imported file is rewritten (path, new text) before the measured calls; with PreGenerate the root is generated
	// once BEFORE the rewrite: the measured result must only depend on what is on disk when it is computed
	MutatePath  string `json:"mutatepath"`
	MutateText  string `json:"mutatetext"`
	PreGenerate bool   `json:"pregenerate"`
}

func settings(sc *scenario) bebop.GenerateSettings { return settingsOf(sc, sc.Opts) }

func settingsOf(sc *scenario, opts []string) bebop.GenerateSettings {
	s := bebop.GenerateSettings{PackageName: "gen"}
	if sc.Mode == "combined" {
		s.ImportGenerationMode = bebop.ImportGenerationModeCombined
	}
	for _, o := range opts {
		switch o {
		case "AlwaysUsePointerReceivers":
			s.AlwaysUsePointerReceivers = true
		case "PrivateDefinitions":
			s.PrivateDefinitions = true
		case "GenerateFieldTags":
			s.GenerateFieldTags = true
		case "GenerateUnsafeMethods":
			s.GenerateUnsafeMethods = true
		case "SharedMemoryStrings":
			s.SharedMemoryStrings = true
		}
	}
	return s
}

// withSpare re-allocates every slice of f with the given spare capacity and
// fills the hidden region with recognisable values.
func withSpare(f bebop.File, spare int) bebop.File {
	st := make([]bebop.Struct, len(f.Structs), len(f.Structs)+spare)
	copy(st, f.Structs)
	f.Structs = st
	ms := make([]bebop.Message, len(f.Messages), len(f.Messages)+spare)
	copy(ms, f.Messages)
	f.Messages = ms
	en := make([]bebop.Enum, len(f.Enums), len(f.Enums)+spare)
	copy(en, f.Enums)
	f.Enums = en
	un := make([]bebop.Union, len(f.Unions), len(f.Unions)+spare)
	copy(un, f.Unions)
	f.Unions = un
	co := make([]bebop.Const, len(f.Consts), len(f.Consts)+spare)
	copy(co, f.Consts)
	f.Consts = co
	return f
}

// snapshot serialises everything reachable from f, including the hidden capacity region of its slices.
func snapshot(f bebop.File) string {
	full := f
	full.Structs = f.Structs[:cap(f.Structs)]
	full.Messages = f.Messages[:cap(f.Messages)]
	full.Enums = f.Enums[:cap(f.Enums)]
	full.Unions = f.Unions[:cap(f.Unions)]
	full.Consts = f.Consts[:cap(f.Consts)]
	jb, _ := json.Marshal(ast.FileOf(full))
	return fmt.Sprintf("%s|%q %q|%d %d %d %d %d", jb, f.FileName, f.GoPackage, len(f.Structs), len(f.Messages), len(f.Enums), len(f.Unions), len(f.Consts))
}

func main() {
	sc := &scenario{}
	if err := json.NewDecoder(os.Stdin).Decode(sc); err != nil {
		fmt.Fprintln(os.Stderr, "racer: bad scenario:", err)
		os.Exit(3)
	}
	if sc.MutatePath != "" {
		if sc.PreGenerate {
			if ph, err := os.Open(sc.Root); err == nil {
				if f0, _, err := bebop.ReadFile(ph); err == nil {
					var sink bytes.Buffer
					_ = f0.Generate(&sink, settings(sc))
				}
				ph.Close()
			}
		}
		if err := os.WriteFile(sc.MutatePath, []byte(sc.MutateText), 0o644); err != nil {
			fmt.Fprintln(os.Stderr, "racer:", err)
			os.Exit(3)
		}
	}
	text, err := os.ReadFile(sc.Root)
	if err != nil {
		fmt.Fprintln(os.Stderr, "racer:", err)
		os.Exit(3)
	}
	fh, _ := os.Open(sc.Root)
	f, _, err := bebop.ReadFile(fh)
	fh.Close()
	if err != nil {
		fmt.Fprintln(os.Stderr, "racer: root does not parse:", err)
		os.Exit(3)
	}
	f = withSpare(f, sc.Spare)
	before := snapshot(f)
	for _, pf := range sc.PreFiles {
		if ph, err := os.Open(pf); err == nil {
			if other, _, err := bebop.ReadFile(ph); err == nil {
				var sink bytes.Buffer
				_ = other.Validate()
				_ = other.Generate(&sink, settingsOf(sc, nil))
				_ = other.Generate(&sink, settingsOf(sc, []string{"GenerateUnsafeMethods", "SharedMemoryStrings"}))
			}
			ph.Close()
		}
	}
	for _, pre := range sc.Pre {
		var sink bytes.Buffer
		_ = f.Generate(&sink, settingsOf(sc, pre))
	}
	deep := reflect.ValueOf(f).Interface()
	_ = deep
	results := make([][]string, sc.Goroutines)
	var wg sync.WaitGroup
	start := make(chan struct{})
	for g := 0; g < sc.Goroutines; g++ {
		wg.Add(1)
		go func(g int) {
			defer wg.Done()
			<-start
			for r := 0; r < sc.Repeat; r++ {
				var out bytes.Buffer
				var err error
				switch sc.API {
				case "Generate":
					err = f.Generate(&out, settings(sc))
				case "Validate":
					err = f.Validate()
				case "Format":
					err = bebop.Format(bytes.NewReader(text), &out)
				case "ReadFile":
					var pf bebop.File
					pf, _, err = bebop.ReadFile(bytes.NewReader(text))
					jb, _ := json.Marshal(ast.FileOf(pf))
					out.Write(jb)
				}
				es := ""
				if err != nil {
					es = err.Error()
				}
				h := sha256.Sum256(append(out.Bytes(), []byte("|"+es)...))
				results[g] = append(results[g], hex.EncodeToString(h[:]))
			}
		}(g)
	}
	close(start)
	wg.Wait()
	identical := true
	first := results[0][0]
	for _, rs := range results {
		for _, h := range rs {
			if h != first {
				identical = false
			}
		}
	}
	after := snapshot(f)
	res := map[string]interface{}{"identical": identical, "unchanged": before == after, "hash": first, "calls": sc.Goroutines * sc.Repeat}
	if before != after {
		i := 0
		for i < len(before) && i < len(after) && before[i] == after[i] {
			i++
		}
		lo := i - 60
		if lo < 0 {
			lo = 0
		}
		res["diff"] = strings.TrimSpace(after[lo:min(len(after), i+100)])
	}
	b, _ := json.Marshal(res)
	fmt.Println(string(b))
}

func min(a, b int) int {
	if a < b {
		return a
	}
	return b
}
