// Command verif is the entry point of the verification machinery:
//
//	verif <Cxx> [quick|thorough]   decide one property on /repo's working tree
//	verif replay <file>            re-execute the case of a replay file
package main

import (
	"fmt"
	"os"
	"strconv"

	"verif/harness/internal/checks"
)

func main() {
	if len(os.Args) < 2 {
		fmt.Fprintln(os.Stderr, "usage: verif <Cxx|replay|selftest> [quick|thorough|file]")
		os.Exit(2)
	}
	seed := 1
	if s := os.Getenv("VERIF_SEED"); s != "" {
		if n, err := strconv.Atoi(s); err == nil {
			seed = n
		}
	}
	tier := "quick"
	if t := os.Getenv("VERIF_TIER"); t != "" {
		tier = t
	}
	if len(os.Args) > 2 && (os.Args[2] == "quick" || os.Args[2] == "thorough") {
		tier = os.Args[2]
	}
	cmd := os.Args[1]
	if cmd == "setup" {
		os.Exit(checks.Setup())
	}
	if cmd == "replay" {
		if len(os.Args) < 3 {
			fmt.Fprintln(os.Stderr, "usage: verif replay <file>")
			os.Exit(2)
		}
		os.Exit(checks.Replay(os.Args[2], seed))
	}
	if cmd == "selftest" {
		ctx, err := checks.NewCtx("selftest", tier, seed)
		if err != nil {
			fmt.Fprintln(os.Stderr, "infrastructure error:", err)
			os.Exit(2)
		}
		code := checks.Selftest(ctx)
		ctx.Cleanup()
		os.Exit(code)
	}
	f, ok := checks.Registry[cmd]
	if !ok {
		fmt.Fprintln(os.Stderr, "unknown check", cmd)
		os.Exit(2)
	}
	ctx, err := checks.NewCtx(cmd, tier, seed)
	if err != nil {
		fmt.Fprintln(os.Stderr, "infrastructure error:", err)
		os.Exit(2)
	}
	code, err := f(ctx)
	ctx.Cleanup()
	if err != nil {
		fmt.Fprintln(os.Stderr, "infrastructure error:", err)
		os.Exit(2)
	}
	os.Exit(code)
}
