#!/usr/bin/env python3
# regenerates /verif/MANIFEST.json from the table below
import json
T="TLA+ spec + TLC case generation + trace validation of the real code"
checks = {
 "C01": ("model_checking","TLC model-checks RoundTrip/SizeIsLen/PrefixIsError on the ideal codec (BebopWire.tla) over the bounded shape x context x value universe and validates, event by event, the trace of every encoder/decoder pairing of the real generated code against that model (Trace_Wire.tla)","7 C01","wire"),
 "C02": ("model_checking","TLC judges every Size/MarshalBebop/MarshalBebopTo (00/FF/A5-filled buffers, with and without slack)/EncodeBebop call of the real generated code against Enc/Size of the spec; SizeIsLen is model-checked on the same cases","7 C02","wire"),
 "C03": ("model_checking","BebopWire.Enc is the independent reference codec: real encoders must emit its bytes (any map order), real decoders must accept its encodings incl. permuted map entries; judged by TLC on the recorded trace","7 C03","wire"),
 "C04": ("model_checking","Gen_Evolve.tla enumerates schema-version pairs x nesting contexts, TLC checks Extends and ForwardCompat on the ideal decoder, the older version's real decoders (also under fragmenting readers, and with a further unknown field of up to 70001 bytes in the evolved message) consume the newer version's reference bytes, TLC judges against RestrictTo; the known byte-path defect is attributed only when the observed value equals the as-is model's prediction","7 C04","wire"),
 "C05": ("model_checking","StreamCodec.tla (ideal element-wise decoder under ALL Deliver fragmentations and fault points; refines StreamAbs; terminates under WF) is model-checked; the real DecodeBebop's per-record observations (cap patterns, greedy/starved, seekable reader, last bytes delivered with io.EOF, payloads stretched to 4-70 KB) and its read-level traces (every Read call) are validated against StreamAbs by Trace_Stream.tla / Trace_Wire.tla","7 C05","wire"),
 "C06": ("model_checking","every cut point of every reference encoding into both real decoders (the stream decoder over a plain reader, a reader that delivers its last bytes with io.EOF, and a bytes.Reader) in a sandboxed worker (panic/oom/timeout/allocation observed), also under generator option sets; PrefixIsError model-checked on the ideal decoder for the same cuts; TLC judges each observation","7 C06","wire"),
 "C07": ("model_checking","TLC generates structure-aware corruptions from the layout (Mutations), checks DecTotal on the ideal decoder, the real decoders run them in a sandboxed worker; violations are attributed to the open allocation findings only where the as-is decoder models (ADec/SWalk in AsIs.tla) predict them","7 C07","wire"),
 "C08": ("model_checking","every reader failure offset (3 error kinds x 3 delivery styles) and every failing Write call index (2 styles) per case, also while an older schema skips a newer version's fields; StreamCodec.tla's FaultSurfaces is model-checked; TLC judges each observation","7 C08","wire"),
 "C09": ("model_checking","one generated package per (schema, option set): pairwise cover of the 2^5 sets in quick (every schema under none and all five), all 32 in thorough; bytes must equal the reference, every decoder incl. MustUnmarshalBebop must return the value; MustUnmarshalBebop must agree with UnmarshalBebop on a peer version's bytes and on receivers that already hold another value","7 C09","wire"),
 "C10": ("model_checking","ParserLoop.tla (ReadFile's top-level loop as a state machine; NoLeak, AttachExactlyOnce, NoSilentDrop, Terminates model-checked for every item sequence up to length 4/5) exports its verdict per sequence, replayed on the real ReadFile; plus every lexeme string up to length 3, every character string up to length 3-4 in 8 grammatical positions, every short string literal wherever the grammar has one, every [flags] expression up to 4 lexemes, every token-prefix of valid schemas (with and without a final newline; append test on a new line and on the same line) and every reader failure offset","7 C10","parser"),
 "C11": ("model_checking","BebopSchema.tla gives tokens and meaning (FileOf) of TLC-enumerated ASTs (definition sequences, field-variant sequences, all type expressions); the real ReadFile must return FileOf(ast) under 7 layouts (standard, CRLF, one line, airy, tight, several empty lines, next definition joined to the closing brace; with and without final newline), attributes above or below the documentation, trailing comments; judged by Trace_Parse.tla","7 C11","parser"),
 "C12": ("model_checking","TLC enumerates the program universe (shape x context x option set; records with two container fields, pseudo-random and random records; the schema of constants under every option set; 97 identifiers at 10 naming sites; every use of an imported definition under 5 type wrappers in both import modes, generated as a multi-package workspace); every accepted package is compiled by the Go compiler; TLC judges the generate events, attributing identifier clashes by the as-is predicate AsIsNameClash","7 C12","wire"),
 "C13": ("model_checking","Gen_Inject.tla: a reference validator (Violated) over the AST; TLC checks the base is well-formed and each of ~280 injections (hand-placed and mechanically placed at every field of every record incl. boundary indices; duplicates across the files of a combined import) violates exactly its rule, that every naming of the small schemas is well-formed, and gives the verdict for EVERY struct graph on 1-3 nodes x 5 edge kinds; Validate.tla model-checks the fixpoint loop as coded under every map iteration order (Exact, Sound, Terminates); the real ReadFile+Generate must agree","7 C13","parser"),
 "C16": ("model_checking","Format on every text of the C11 universe (7 layouts) and on text-level variants of it (blanks in front of line ends, line breaks inside quoted literals); output must re-parse to StripFile(FileOf(ast)) - for the variants: to the File that ReadFile gives for the text itself; formatter defects are attributed by construct predicates over the token stream (Trace_Parse.tla)","7 C16","parser"),
 "C17": ("exploration","Format(Format(x)) = Format(x) on every text of the C11 universe (7 layouts, plus text-level variants with blanks in front of LF/CRLF and line breaks inside quoted literals) - a metamorphic law on the implementation over spec-enumerated inputs; verdict bookkeeping in Trace_Parse.tla","7 C17","parser"),
 "C18": ("model_checking","Imports.tla: declarative meaning (reachable files, package graph, inline order) and the worklist/DFS algorithms as coded, model-checked equal on EVERY import graph up to 3 files (4 sampled) x package assignments x directory placements x modes; graphs are materialised on disk and generated by the real code; every distinct combined-mode output is compiled and compared, declaration by declaration, with the code generated for the inlined schema (also with umbrella files that only import); judged by Trace_Imports.tla; ladders for termination in practice","7 C18","imports"),
 "C20": ("model_checking","Gen_IoHelp.tla enumerates all 2^8/2^16 values and boundary/pseudo-random wider values, ReadOfWrite model-checked; direct calls to iohelp judged by Trace_IoHelp.tla against EncPrim/DecPrim; string bounds; every slice length 0..width+3 for the byte-slice functions; stale-scratch independence and Err after short reads over plain and standard (bytes.Reader, bytes.Buffer, bufio.Reader) readers","7 C20","iohelp"),
}
notes = {
 "C12":"the Go compiler is the oracle for 'compiles'; the spec supplies the program universe",
 "C17":"weakest use of the technique: the spec supplies inputs and bookkeeping, the law is checked on the implementation",
}
thorough_absent=set()
m = {
 "version": 1,
 "setup_cmd": "bin/check setup",
 "hooks": {"guard": "verif", "enable": "go build -tags verif (no hook is compiled into 200sc/bebop: every abstract state the properties talk about is observable at the public API; the tag is reserved and every harness build passes it)",
           "baseline_off_cmd": "cd /repo && go test -vet=off -count=1 ./...", "source_commits": [], "add_only": True},
 "engines": [
  {"name":"wire","path":"spec/BebopWire.tla spec/WireUniverse.tla spec/AsIs.tla spec/Gen_Wire.tla spec/Gen_Evolve.tla spec/StreamAbs.tla spec/StreamCodec.tla spec/Trace_Wire.tla spec/Trace_Stream.tla harness/","serves_properties":["C01","C02","C03","C04","C05","C06","C07","C08","C09","C12"],"kind_free_text":"TLA+ reference model of the wire format and the stream decoder; TLC enumerates cases and checks design theorems; the real generator and generated code run in a sandboxed worker; TLC validates the recorded traces"},
  {"name":"parser","path":"spec/BebopSchema.tla spec/Gen_Parse.tla spec/Gen_Inject.tla spec/Validate.tla spec/Literals.tla spec/Gen_Literals.tla spec/Trace_C15.tla spec/ParserLoop.tla spec/Gen_Tokens.tla spec/Trace_Parse.tla spec/Trace_C10.tla harness/","serves_properties":["C10","C11","C13","C15","C16","C17"],"kind_free_text":"abstract syntax, tokens and meaning of schema texts; ReadFile's loop as a state machine; reference validator"},
  {"name":"imports","path":"spec/Imports.tla spec/Trace_Imports.tla","serves_properties":["C18"],"kind_free_text":"import graphs: declarative meaning and the coded worklist/DFS"},
  {"name":"iohelp","path":"spec/Gen_IoHelp.tla spec/Trace_IoHelp.tla","serves_properties":["C20"],"kind_free_text":"primitive layouts"},
 ],
 "checks": [], "not_applicable": [],
 "notes": "Model-based verification with an explicit TLA+ specification; see DESIGN.md. known_findings.json lists open findings (attributed by the as-is model) and fixed ones.",
}
import os
extra = json.load(open('/verif/bin/manifest_extra.json')) if os.path.exists('/verif/bin/manifest_extra.json') else {}
checks.update({k:tuple(v) for k,v in extra.get('checks',{}).items()})
for e in extra.get('engines',[]): m['engines'].append(e)
for pid in sorted(checks):
    cat,text,ref,eng = checks[pid]
    c={"property_id":pid,"quick_cmd":"bin/check %s quick"%pid,"thorough_cmd":"bin/check %s thorough"%pid,
       "evidence_file":"/verif/evidence/%s.json"%pid,"replay_cmd_template":"bin/check replay {path}","engine":eng,
       "level_claimed":{"category":cat,"text":text,"design_ref":"DESIGN.md section "+ref},
       "level_note":notes.get(pid,"trusted: the TLA+ modules as reading of the format/language, the harness's renderers and reflection mapper, TLC; bounded universes (stated in the evidence rule)"),
       "technique":T}
    m["checks"].append(c)
allp=["C%02d"%i for i in range(1,21)]
reasons=extra.get('na',{})
for p in allp:
    if p not in checks:
        m["not_applicable"].append({"property_id":p,"reason":reasons.get(p,"check under construction in this session")})
json.dump(m,open('/verif/MANIFEST.json','w'),indent=1)
print(len(m['checks']),'checks;',len(m['not_applicable']),'not applicable')
