# source me: save <deliverable dir> <seed id> <caught_by comma list> <note>
save() { src=$1; id=$2; caught="$3"; note="$4"; mkdir -p /verif/seeded/$id; cp $src/patch.diff /verif/seeded/$id/; rm -rf /verif/seeded/$id/demo; cp -r $src/demo /verif/seeded/$id/demo; python3 - "$src/meta.json" "/verif/seeded/$id/meta.json" "$caught" "$note" <<'PY'
import json,sys
m=json.load(open(sys.argv[1]))
m['caught_by']=[x for x in sys.argv[3].split(',') if x]
m['confirmed']="bin/seedverify: patch applies at repo HEAD, go build ok, unedited test suite ok with patch, demo exits non-zero with patch and 0 without; bin/seedtest: listed quick checks exit 1 with a VIOLATION line with the patch applied to /repo and pass without"
if sys.argv[4]: m['note']=sys.argv[4]
json.dump(m,open(sys.argv[2],'w'),indent=1)
PY
}
