#!/usr/bin/env python3
# prints the markdown table of DESIGN.md 13.4 from seeded/*/meta.json
import json,glob,os,re
rows=[]
for d in sorted(glob.glob(os.path.join(os.path.dirname(__file__),'..','seeded','*'))):
    m=json.load(open(os.path.join(d,'meta.json')))
    sid=os.path.basename(d)
    t=m.get('title','').replace('|','/')
    note=m.get('note','').replace('|','/')
    rows.append((sid,t,', '.join(m.get('caught_by',[])),note))
print('| seed | what it breaks | caught by | note |\n|---|---|---|---|')
for r in rows: print('| %s | %s | %s | %s |'%r)
print()
print('%d seeded changes; %d caught; %d of them only after strengthening.'%(len(rows),sum(1 for r in rows if r[2]),sum(1 for r in rows if 'missed at first' in r[3] or 'strengthened' in r[3].lower())))
